"""Reference model of pane's documented conversion rules (DESIGN.md 3.4 (c)); used by the C01 harness.

spec(T, v) -> (verdict, image)   verdict: True member / False not a member / None "not judged" (see DONTCARE below)

Written from docs/using/basic.md, docs/using/dataclasses.md and the docstrings, NOT from the converter code:
  * scalars: int <- int (a bool is an int); float <- int, float; complex <- int, float, complex; str <- str;
    bytes/bytearray <- bytes, bytearray; bool <- bool; None <- None.  Image: the target constructor applied.
  * Literal[...]: equal to one of the values (image: the value itself).
  * Enum: the value of a member (image: the member).
  * List/MutableSequence -> list, Sequence/Tuple[X, ...] -> tuple, Set/MutableSet -> set, FrozenSet/AbstractSet -> frozenset,
    deque -> deque; from a real sequence (list/tuple), element-wise.
  * Tuple[A, B] / (A, B): a real sequence of exactly that length, slot-wise; image tuple.
  * Dict/Mapping[K, V] -> dict, Counter, defaultdict; from a mapping, key- and value-wise.
  * {'a': A, ...}: a mapping with exactly those keys; image dict.
  * Union: left-most accepting member.
  * Annotated[T, cond]: member of T whose image satisfies the predicate (reference predicates passed in PREDS).
  * dataclass: mapping by input names (no unknown keys unless allow_extra, no duplicates, required present), or - if the
    tuple layout is enabled - a real sequence bound positionally to the init, non-keyword-only fields, length between the
    required and the total count; then the validation hook must not raise.  Image: instance with converted fields/defaults.
DONTCARE: cross-kind *equal* values against Literal/Enum values (True == 1 == 1.0): Python equality is what `in` uses and
the property text does not say which way they go.
"""
import collections
import enum
import typing as t

from pane.field import _MISSING

DONTCARE = None


def is_seq(v):
    return isinstance(v, (list, tuple))


def is_map(v):
    return isinstance(v, (dict, collections.abc.Mapping))


_SEQ_IMAGE = {
    list: list, t.List: list, collections.abc.MutableSequence: list,
    tuple: tuple, collections.abc.Sequence: tuple,
    set: set, collections.abc.MutableSet: set,
    frozenset: frozenset, collections.abc.Set: frozenset,
    collections.deque: collections.deque,
}


def _scalar(T, v):
    if T is int:
        return (True, int(v)) if isinstance(v, int) else (False, None)
    if T is float:
        if not isinstance(v, (int, float)):
            return False, None
        try:
            return True, float(v)
        except OverflowError:            # an int with no float image (the widening must be lossless: not a member)
            return False, None
    if T is complex:
        if not isinstance(v, (int, float, complex)):
            return False, None
        try:
            return True, complex(v)
        except OverflowError:
            return False, None
    if T is bool:
        return (True, v) if isinstance(v, bool) else (False, None)
    if T is str:
        return (True, v) if isinstance(v, str) else (False, None)
    if T is bytes:
        return (True, bytes(v)) if isinstance(v, (bytes, bytearray)) else (False, None)
    if T is bytearray:
        return (True, bytearray(v)) if isinstance(v, (bytes, bytearray)) else (False, None)
    return None


def _same_kind(a, b):
    return type(a) is type(b)


def spec(T, v, preds=None):
    if T is t.Any:
        return True, v
    if T is None or T is type(None):
        return (True, None) if v is None else (False, None)
    if isinstance(T, dict):                                  # struct type literal
        if not is_map(v):
            return False, None
        out = {}
        for k in v:
            if k not in T:
                return False, None
        for k in T:
            if k not in v:
                return False, None
        dc = False
        for k in v:
            ok, img = spec(T[k], v[k], preds)
            if ok is None:
                dc = True
            elif not ok:
                return False, None
            out[k] = img
        return (DONTCARE, None) if dc else (True, out)
    if isinstance(T, tuple):                                 # tuple type literal
        return _fixed_tuple(T, v, preds)
    s = _scalar(T, v) if isinstance(T, type) else None
    if s is not None:
        return s
    if isinstance(T, type) and issubclass(T, str) and not issubclass(T, enum.Enum):      # subclass of str: a scalar
        return (True, T(v)) if isinstance(v, str) else (False, None)
    origin = t.get_origin(T)
    args = t.get_args(T)
    if origin is t.Annotated:
        ok, img = spec(args[0], v, preds)
        if not ok:
            return ok, None
        for c in args[1:]:
            p = preds[c]
            if not p(img):
                return False, None
        return True, img
    if origin is t.Union:
        dc = False
        for m in args:
            ok, img = spec(m, v, preds)
            if ok is None:
                dc = True           # an earlier member is not judged: the winner is not determined
            elif ok:
                return (DONTCARE, None) if dc else (True, img)
        return (DONTCARE, None) if dc else (False, None)
    if origin is t.Literal:
        hit = False
        for lit in args:
            if _same_kind(lit, v):
                if lit == v:
                    return True, v
            elif isinstance(v, (bool, int, float, complex)) and isinstance(lit, (bool, int, float, complex)):
                if lit == v:
                    hit = True
        return (DONTCARE, None) if hit else (False, None)
    base = origin or T
    if isinstance(base, type) and issubclass(base, enum.Enum):
        hit = False
        for m in base:
            if _same_kind(m.value, v):
                if m.value == v:
                    return True, m
            elif isinstance(v, (bool, int, float)) and isinstance(m.value, (bool, int, float)):
                if m.value == v:
                    hit = True
        return (DONTCARE, None) if hit else (False, None)
    if isinstance(base, type) and hasattr(base, '__pane_info__'):
        return _dataclass(base, v, preds)
    if base in (tuple, t.Tuple) and args and args[-1] is not Ellipsis:
        return _fixed_tuple(args, v, preds)
    if base is tuple and args == () and hasattr(T, '__args__'):
        return _fixed_tuple((), v, preds)
    if isinstance(base, type) and issubclass(base, (collections.abc.Sequence, collections.abc.Set)) and not issubclass(base, (str, bytes)):
        if not is_seq(v):
            return False, None
        elem = args[0] if args else t.Any
        out = []
        dc = False
        for x in v:
            ok, img = spec(elem, x, preds)
            if ok is None:
                dc = True
            elif not ok:
                return False, None
            out.append(img)
        if dc:
            return DONTCARE, None
        ctor = _SEQ_IMAGE.get(base, base)
        return True, ctor(out)
    if isinstance(base, type) and issubclass(base, (dict, collections.abc.Mapping)):
        if not is_map(v):
            return False, None
        if issubclass(base, collections.Counter):
            kt, vt = (args[0] if args else t.Any), int
        else:
            kt = args[0] if len(args) > 0 else t.Any
            vt = args[1] if len(args) > 1 else t.Any
        out = {}
        dc = False
        for k in v:
            ok1, ki = spec(kt, k, preds)
            ok2, vi = spec(vt, v[k], preds)
            if ok1 is None or ok2 is None:
                dc = True
                continue
            if not (ok1 and ok2):
                return False, None
            out[ki] = vi
        if dc:
            return DONTCARE, None
        if issubclass(base, collections.defaultdict):
            return True, collections.defaultdict(None, out)
        if base in (dict, collections.abc.Mapping, collections.abc.MutableMapping):
            return True, out
        return True, base(out)
    raise NotImplementedError(f"spec: no rule for {T!r}")


def _fixed_tuple(types, v, preds):
    if not is_seq(v) or len(v) != len(types):
        return False, None
    out = []
    dc = False
    for (ty, x) in zip(types, v):
        ok, img = spec(ty, x, preds)
        if ok is None:
            dc = True
        elif not ok:
            return False, None
        out.append(img)
    return (DONTCARE, None) if dc else (True, tuple(out))


class Image:
    """expected dataclass instance: class + field values (compared field-wise by the harness)"""
    def __init__(self, cls, values, set_fields):
        self.cls, self.values, self.set_fields = cls, values, set_fields


def _dataclass(cls, v, preds):
    info = cls.__pane_info__
    opts = info.opts
    fields = [f for f in info.fields]
    values = {}
    dc = False
    if is_seq(v):
        if 'tuple' not in opts.in_format:
            return False, None
        pos = [f for f in fields if f.init and not f.kw_only]
        required = 0
        for f in pos:
            if f.default is _MISSING and f.default_factory is None:
                required += 1
        if not (required <= len(v) <= len(pos)):
            return False, None
        for (f, x) in zip(pos, v):
            ok, img = spec(f.type, x, preds)
            if ok is None:
                dc = True
            elif not ok:
                return False, None
            values[f.name] = img
    elif is_map(v):
        if 'struct' not in opts.in_format:
            return False, None
        for k in v:
            owner = None
            for f in fields:
                if f.init and (k in f.in_names):
                    owner = f
            if owner is None:
                if not opts.allow_extra:
                    return False, None
                continue
            if owner.name in values:
                return False, None                  # two keys naming the same field
            ok, img = spec(owner.type, v[k], preds)
            if ok is None:
                dc = True
            elif not ok:
                return False, None
            values[owner.name] = img
    else:
        return False, None
    supplied = set(values)
    for f in fields:
        if f.init and f.name not in values:
            if f.default is not _MISSING:
                values[f.name] = f.default
            elif f.default_factory is not None:
                values[f.name] = f.default_factory()
            else:
                return False, None                  # missing required field
    if dc:
        return DONTCARE, None
    hook = preds.get(cls) if preds else None
    if hook is not None and not hook(values):
        return False, None
    return True, Image(cls, values, supplied)


def image_matches(img, r, eqv):
    """is the real result r the deep, exactly-typed image?"""
    if isinstance(img, Image):
        if type(r) is not img.cls:
            return False
        for (k, x) in img.values.items():
            if not image_matches(x, getattr(r, k, _MISSING), eqv):
                return False
        return True
    if isinstance(img, (list, tuple, collections.deque)):
        if type(r) is not type(img) or len(r) != len(img):
            return False
        for (a, b) in zip(img, r):
            if not image_matches(a, b, eqv):
                return False
        return True
    if isinstance(img, dict):
        if type(r) is not type(img) or len(r) != len(img):
            return False
        for k in img:
            if k not in r or not image_matches(img[k], r[k], eqv):
                return False
        return True
    if isinstance(img, (set, frozenset)):
        return type(r) is type(img) and r == img
    return eqv(img, r)
