"""Converter/type table and value builders shared by the C03 / C04 / C09 harnesses (and reused by others).

TYPES maps a short name to a pane type expression (or a ready Converter instance for converter classes that no
type expression reaches with a python constructor).  emit() generates, into the calling harness module, one body per
(converter, shape group) over the generic depth-1 value domain of hlib.gv, and the T-directed bodies defined here,
each calling the property's own oracle `ORACLE(name, v)`.
"""
import collections
import datetime
import enum
import re
import sys
import typing as t
from typing import List, Literal, Optional

import pane
from pane import PaneBase, field
from pane.annotations import Tagged, Condition, val_range, len_range, Positive, Finite, NonEmpty
from pane.convert import make_converter, ConverterHandlers
from pane.converters import (NestedSequenceConverter, DelegateConverter, UnionConverter, SequenceConverter,
                             DictConverter, PatternConverter, ConditionalConverter)
from pane.types import Range, ValueOrList

import hlib
from hlib import (obligation, gv, gvf, lf, lf3, cint, key3, key4, GV_PRE, GV_SIG, GV_ARGS, GVF_PRE, GVF_SIG, GVF_ARGS,
                  OutOfBound, NAN)


# ------------------------------------------------------------------ types

class E1(enum.Enum):
    A = 'a'
    B = 'b'


class EI(enum.Enum):
    ONE = 1
    TWO = 2


class ESM(str, enum.Enum):
    """an enum mixing in str: its members ARE strings"""
    A = 'a'
    B = 'b'


class EIM(enum.IntEnum):
    ONE = 1
    TWO = 2


class MyInt(int):
    def __new__(cls, v):
        if v < 0:
            raise ValueError("negative")
        return super().__new__(cls, v)


class StrSub(str):
    """a plain subclass of str: a scalar, not a sequence of characters"""


class P1(PaneBase):
    a: int
    b: float = 1.0


class P2(PaneBase, in_format=('tuple', 'struct'), allow_extra=True):
    a: int
    b: Optional[str] = None


class PH(PaneBase, in_format=('tuple', 'struct')):
    """dataclass with a validation hook relating two fields"""
    a: int
    b: int = 0

    def __post_init__(self):
        if self.a > self.b:
            raise ValueError("a > b")


class PAl(PaneBase, rename='camel'):
    a_b: int = field(aliases=('ab', 'zz'))
    b: List[int] = field(default_factory=list)


class PT(PaneBase, in_format=('tuple',), out_format='tuple'):
    a: int
    b: Optional[str] = None


class PI(PaneBase, in_format=('tuple', 'struct')):
    """an init=False field declared BEFORE other positional fields (positional binding must skip it)"""
    x: int
    scale: float = field(init=False, default=1.5)
    n: int = 0
    label: str = ''


class VX(PaneBase):
    t: Literal['x'] = 'x'
    a: int = 0


class VY(PaneBase):
    t: Literal['y'] = 'y'
    a: str = ''


class VNone(PaneBase):
    """a variant whose tag is None"""
    t: None = None
    a: int = 0


class PN(PaneBase):
    """nested dataclass + container of dataclasses"""
    p: P1
    q: List[P2] = field(default_factory=list)


def _raising_pred(v):
    if v == 7:
        raise ZeroDivisionError("seven")
    return v > 0


def _raising_ctor(v, i):
    if i == 1:
        raise ValueError("second member refused")
    return v


def _nested_ctor(x):
    # python stand-in for numpy.array; total on rectangular nested lists of scalars, as numpy.array is (a raising
    # constructor is not obtainable from any type expression, so it is outside C03/C04's domain)
    return ('arr', x)


class PickyDict(dict):
    """dict subclass whose constructor refuses more than one item (DictConverter constructor failure)"""
    def __init__(self, d=()):
        d = dict(d)
        if len(d) > 1:
            raise ValueError("too many items")
        super().__init__(d)


TYPES = {
    'any': t.Any,
    'int': int, 'float': float, 'complex': complex, 'str': str, 'bytes': bytes, 'none': type(None), 'bool': bool,
    'lit': Literal['a', 1, None],
    'enum_s': E1, 'enum_i': EI, 'myint': MyInt, 'strsub': StrSub,
    'list_int': t.List[int], 'seq_any': t.Sequence, 'set_int': t.Set[int],
    'tuple_var': t.Tuple[int, ...], 'tuple_fix': t.Tuple[int, float], 'tuple_lit': (int, str), 'tuple_struct': t.Tuple[P1, int],
    'dict_si': t.Dict[str, int], 'dict_if': t.Dict[int, float], 'counter': collections.Counter,
    'ddict': t.DefaultDict[str, int],
    'struct': {'a': int, 'b': Optional[str]},
    'union': t.Union[int, str, t.List[int]],
    'opt_list': Optional[t.List[t.Union[int, None]]],
    'vol': ValueOrList[int],
    'cond_pos': t.Annotated[int, Positive],
    'cond_rng': t.Annotated[float, val_range(min=0, max=5), Finite],
    'cond_len': t.Annotated[t.List[int], len_range(min=1, max=2)],
    'cond_raise': t.Annotated[int, Condition(_raising_pred, 'pred')],
    'cond_nested': t.List[t.Annotated[int, Positive]],
    'cond_set': t.Annotated[t.Set[int], len_range(min=2)],        # the condition must see the CONVERTED value (duplicates gone)
    'opt_vol': Optional[ValueOrList[int]],                        # a union member whose own converter is a union
    'p1': P1, 'p2': P2, 'ph': PH, 'pal': PAl, 'pt': PT, 'pn': PN, 'pi': PI,
    'range': Range[int],
    'list_p1': t.List[P1], 'dict_p2': t.Dict[str, P2],
    'tag_int': t.Annotated[t.Union[VX, VY], Tagged('t')],
    'tag_ext': t.Annotated[t.Union[VX, VY], Tagged('t', external=True)],
    'tag_adj': t.Annotated[t.Union[VX, VY], Tagged('t', external=('t', 'c'))],
    'union_tag_dict': None,      # filled below: Union[<internally tagged union>, Dict[str, int]]
    'picky': PickyDict,
    'decimal': __import__('decimal').Decimal,
    'fraction': __import__('fractions').Fraction,
    'date': datetime.date,
    'pattern': t.Pattern[str],
}

TYPES['union_tag_dict'] = t.Union[TYPES['tag_int'], t.Dict[str, int]]
# a tagged union as a member of another union keeps its own layout
# a struct inside a struct (a child error that has only missing / unexpected keys), a container of a three-way union,
# an internally tagged union with a None-tagged variant
TYPES['struct_in_struct'] = {'p': {'a': int, 'b': t.Optional[str]}, 'n': int}
TYPES['list_union3'] = t.List[t.Union[int, str, None]]
TYPES['dict_union3'] = t.Dict[str, t.Annotated[t.Union[int, str, None], Condition(lambda v: v != 13, 'not 13')]]
TYPES['tag_int_none'] = t.Annotated[t.Union[VX, VNone], Tagged('t')]
# keys that are themselves sequences
TYPES['dict_fskey'] = t.Dict[t.FrozenSet[int], int]
TYPES['dict_tupkey'] = t.Dict[t.Tuple[int, t.FrozenSet[int]], str]
TYPES['opt_enum_sm'] = t.Optional[ESM]
TYPES['list_enum_im'] = t.List[t.Optional[EIM]]
TYPES['opt_tag_ext'] = t.Optional[TYPES['tag_ext']]
TYPES['union_tag_adj'] = t.Union[int, TYPES['tag_adj'], None]

# converter instances that no plain type expression produces (python constructors / raising constructors)
CONV_ONLY = {
    'union_ctor': lambda: UnionConverter((int, str), constructor=_raising_ctor),
    'nested': lambda: NestedSequenceConverter(int, _nested_ctor),
    'nested_ragged': lambda: NestedSequenceConverter(int, _nested_ctor, ragged=True),
    'delegate': lambda: DelegateConverter(int, MyInt),
}

CONVS = {}
for (_n, _ty) in TYPES.items():
    CONVS[_n] = make_converter(_ty)
for (_n, _mk) in CONV_ONLY.items():
    CONVS[_n] = _mk()

SAMPLES = [None, True, 0, 1, -1, 2.5, float('nan'), 'a', '', b'x', [], [1], [1, 'a'], {}, {'a': 1}, {'a': 1, 'b': 2.0},
           (1, 2.0), [[1], 2], {'a': [1]}, {'t': 'x', 'a': 1}, {'x': {'a': 1}}, {'t': 'x', 'c': {'a': 1}}, [1, 2, 3], 'ab',
           {'t': ['x']}, {'start': 0, 'end': 2, 'n': 3}, {'p': {'a': 1}, 'q': [{'a': 1}]}, '2020-01-02', '(', 'ab+']

# vocabulary per converter so that the keys the converter distinguishes are all present
VOCAB = {
    'struct': ('a', 'b', 'zz'), 'p1': ('a', 'b', 'zz'), 'p2': ('a', 'b', 'zz'), 'ph': ('a', 'b', 'zz'),
    'pal': ('a_b', 'aB', 'ab'), 'range': ('start', 'end', 'n'), 'pn': ('p', 'q', 'zz'), 'pi': ('x', 'n', 'scale'),
    'tag_int': ('t', 'a', 'zz'), 'tag_ext': ('x', 'y', 'zz'), 'tag_adj': ('t', 'c', 'zz'),
    'dict_si': ('a', 'b', ''), 'counter': ('a', 'b', ''), 'picky': ('a', 'b', ''), 'union_tag_dict': ('t', 'a', 'zz'),
    'opt_tag_ext': ('x', 'y', 'zz'), 'union_tag_adj': ('t', 'c', 'zz'), 'struct_in_struct': ('p', 'n', 'zz'), 'tag_int_none': ('t', 'a', 'zz'),
}

# which shape group can reach acceptance (default A) / rejection (default A); None = not in the generic domain
ACC = {'tuple_fix': 'B', 'tuple_lit': 'B', 'range': None, 'tag_adj': None, 'tag_ext': None, 'struct': 'C', 'pn': None,
       'pt': 'A', 'cond_set': 'B', 'tuple_struct': None, 'opt_tag_ext': 'A', 'union_tag_adj': 'A', 'struct_in_struct': None, 'tag_int_none': None}
REJ = {'any': None}
MAPPISH = {'any', 'dict_si', 'dict_if', 'counter', 'ddict', 'struct', 'union', 'p1', 'p2', 'ph', 'pal', 'range', 'dict_p2',
           'tag_int', 'tag_ext', 'tag_adj', 'vol', 'picky', 'pn', 'pi', 'union_tag_dict', 'opt_vol', 'opt_tag_ext', 'union_tag_adj', 'dict_fskey', 'dict_tupkey', 'struct_in_struct', 'tag_int_none', 'dict_union3'}
SEQISH = {'any', 'list_int', 'seq_any', 'set_int', 'tuple_var', 'tuple_fix', 'tuple_lit', 'union', 'opt_list', 'vol',
          'cond_len', 'cond_nested', 'nested', 'nested_ragged', 'p2', 'ph', 'range', 'list_p1', 'union_ctor', 'lit', 'str',
          'pt', 'pi', 'cond_set', 'opt_vol', 'tuple_struct', 'list_enum_im', 'list_union3'}
TEXT = {'date', 'pattern', 'decimal', 'fraction'}      # text parsed by stdlib C/regex code: concretised vocabulary (td_text)
# converters whose target constructor realises a symbolic int (complex(), int subclass __new__, float()): small ints
SMALLINT = {'complex', 'cond_rng', 'range', 'myint', 'delegate', 'strsub', 'cond_set'}
NO_F = {'complex'}              # complex(symbolic float) realises without end

_GEN = '''
@obligation(pre={pre!r}, witnesses={wit!r}, timeout={timeout}, tiers={tiers!r})
def body_gen_{name}_{grp}({sig}) -> int:
    """{what}: {name} converter, generic depth-1 value domain, shape group {grp}"""
    v = {builder}({args}, {vocab})
    return ORACLE({name!r}, v, {grp!r})
'''


def emit(ns, what, names=None, groups='ABCF', timeout=90, quick_groups='ABCF'):
    """Generate the generic-domain bodies into namespace `ns` (a harness module's globals()).
    Groups not in quick_groups are registered for the thorough tier only."""
    for name in (names or CONVS):
        if name in TEXT:
            continue
        for grp in groups:
            if grp == 'B' and name not in SEQISH:
                continue
            if grp == 'C' and name not in MAPPISH:
                continue
            if grp == 'F' and name in NO_F:
                continue
            wit = []
            if ACC.get(name, 'A') == grp:
                wit.append(0)
            if REJ.get(name, 'A') == grp:
                wit.append(-1)
            vocab = VOCAB.get(name, ('a', 'b', 'zz'))
            tiers = ('quick', 'thorough') if grp in quick_groups else ('thorough',)
            if grp == 'F':
                src = _GEN.format(name=name, grp=grp, sig=GVF_SIG, args=GVF_ARGS, pre=GVF_PRE, builder='gvf',
                                  vocab=repr(vocab), wit=(), timeout=60, what=what, tiers=tiers)
            else:
                src = _GEN.format(name=name, grp=grp, sig=GV_SIG, args=GV_ARGS, pre=GV_PRE[grp], builder='gv',
                                  vocab=repr(vocab) + (', True' if name in SMALLINT else ''), wit=tuple(wit),
                                  timeout=timeout, what=what, tiers=tiers)
            exec(src, ns)


# ------------------------------------------------------------------ T-directed values (depth 2, near-valid)

def tag_value(tk):
    """tag kinds: 1 'x', 2 'y', 3 foreign str, 4 int, 5 None, 6 list, 7 dict, 8 bool"""
    if tk == 1:
        return 'x'
    elif tk == 2:
        return 'y'
    elif tk == 3:
        return 'q'
    elif tk == 4:
        return 1
    elif tk == 5:
        return None
    elif tk == 6:
        return ['x']
    elif tk == 7:
        return {}
    else:
        return True


def variant_body(ha, ka, ia, sa, he):
    """body of a VX/VY variant: optional 'a' (leaf slot), optional extra key"""
    d = {}
    if ha:
        d['a'] = lf(ka, ia, sa)
    if he:
        d['zz'] = 1
    return d


def b_tag_int(tk, ha, ka, ia, sa, he):
    d = variant_body(ha, ka, ia, sa, he)
    if tk != 0:
        d['t'] = tag_value(tk)
    return d


def b_tag_ext(tk, bk, ha, ka, ia, sa, he, n):
    """{tag: body}: tag kinds 1..5, 8 (hashable); body kind bk: 0 mapping, 1 leaf, 2 mapping that REPEATS the tag (as
    into_data writes it); n: number of top-level items 0..2"""
    body = variant_body(ha, ka, ia, sa, he) if bk != 1 else lf(ka, ia, sa)
    if bk == 2:
        body['t'] = tag_value(tk)
    if n == 0:
        return {}
    d = {tag_value(tk): body}
    if n == 2:
        d['other'] = {}
    return d


def b_tag_adj(tk, bk, ha, ka, ia, sa, he, shape):
    """shape: 0 {t,c} | 1 {t} only | 2 {c} only | 3 {t,c,extra} | 4 {t, zz} (2 keys, wrong one)"""
    body = variant_body(ha, ka, ia, sa, he) if bk != 1 else lf(ka, ia, sa)
    tag = tag_value(tk)
    if bk == 2:
        body['t'] = tag
    if shape == 0:
        return {'t': tag, 'c': body}
    elif shape == 1:
        return {'t': tag}
    elif shape == 2:
        return {'c': body}
    elif shape == 3:
        return {'t': tag, 'c': body, 'zz': 1}
    else:
        return {'t': tag, 'zz': body}


def _n_val(nsel):
    if nsel == 1:
        return 0
    elif nsel == 2:
        return 1
    elif nsel == 3:
        return 2
    elif nsel == 4:
        return 3
    elif nsel == 5:
        return None
    elif nsel == 6:
        return 'x'
    else:
        return -1


def b_range(hs, he, e, nsel, ssel):
    """Range[int] as a mapping.  Numeric fields come from a concrete vocabulary by selector: Range.__post_init__ does
    symbolic % and / on them, which z3 does not decide in reasonable time (measured: 225 s solver time, unfinished)."""
    d = {}
    if hs:
        d['start'] = 0
    if he:
        d['end'] = 2 if e == 0 else 3
    if nsel != 0:
        d['n'] = _n_val(nsel)
    if ssel == 1:
        d['step'] = 0
    elif ssel == 2:
        d['step'] = 1
    elif ssel == 3:
        d['step'] = 2
    elif ssel == 4:
        d['step'] = None
    return d


def b_range_seq(n, e, nsel, tup):
    xs = []
    if n >= 1:
        xs.append(0)
    if n >= 2:
        xs.append(2 if e == 0 else 3)
    if n >= 3:
        xs.append(_n_val(nsel))
    if n >= 4:
        xs.append(1)
    return tuple(xs) if tup else xs


def b_seq(n, ka, ia, sa, kb, ib, sb, kc, ic, sc, tup):
    """sequence of length n in 0..3 of leaf slots; list or tuple"""
    xs = []
    if n >= 1:
        xs.append(lf(ka, ia, sa))
    if n >= 2:
        xs.append(lf3(kb, ib, sb))
    if n >= 3:
        xs.append(lf3(kc, ic, sc))
    return tuple(xs) if tup else xs


def b_struct2(pa, ka, ia, sa, pb, kb, ib, sb, pe, names=('a', 'b', 'zz')):
    """mapping with optional keys names[0], names[1] and an optional extra names[2]"""
    d = {}
    if pa:
        d[names[0]] = lf(ka, ia, sa)
    if pb:
        d[names[1]] = lf3(kb, ib, sb)
    if pe:
        d[names[2]] = 1
    return d


def b_seqkey(n, ka, ia, sa, ib, two, nest):
    """a mapping whose keys are tuples: {(A, ib..): 'v'} of length n, optionally a second key; nest: the second position is itself a tuple"""
    A = lf(ka, ia, sa, True)           # concrete classes: the leaf is hashed as part of a key
    ib = cint(ib)
    rest = (ib, 3)
    if nest:
        key = (A, (ib,)) if n >= 2 else (A,)
    else:
        key = (A,) + rest[:n - 1] if n >= 1 else ()
    d = {key: 'v' if nest else 1}
    if two:
        d[(7, (8,)) if nest else (7, 8)] = 'w' if nest else 2
    return d


def b_struct_nested(pp, pa, ka, ia, sa, pb, kb, ib, sb, pe, pn):
    """{'p': {a?, b?, zz?}, 'n'?}: the inner struct may have only a missing / unexpected key as its defect"""
    d = {}
    if pp:
        d['p'] = b_struct2(pa, ka, ia, sa, pb, kb, ib, sb, pe)
    if pn:
        d['n'] = 1
    return d


def b_pal(y1, y2, ka, ia, sa, bk):
    """PAl (rename='camel', aliases): one or two keys naming a_b chosen from its candidate names, plus field b"""
    d = {}
    k1 = key4(y1, 'a_b', 'aB', 'ab', 'zz')
    d[k1] = lf(ka, ia, sa)
    if y2 != 4:
        k2 = key4(y2, 'a_b', 'aB', 'ab', 'zz')
        if k2 != k1:
            d[k2] = 1
    if bk == 1:
        d['b'] = [1]
    elif bk == 2:
        d['b'] = ['x']
    elif bk == 3:
        d['b'] = 1
    return d


def b_nested(shape, ka, ia, sa):
    A = lf(ka, ia, sa)
    if shape == 0:
        return [[A, 2], [3, 4]]
    elif shape == 1:
        return [[A], [2, 3]]
    elif shape == 2:
        return [[1, 2], A]
    elif shape == 3:
        return [A, 2, 3]
    elif shape == 4:
        return [[A, 2, 3]]
    elif shape == 5:
        return [[[A]], [[2]]]
    else:
        return [[], [A]]


def b_pn(pk, ka, ia, sa, qk, kb, ib, sb, he):
    """PN: p is P1-shaped, q a list of P2-shaped"""
    d = {}
    if pk == 0:
        d['p'] = {'a': lf(ka, ia, sa)}
    elif pk == 1:
        d['p'] = {'a': 1, 'b': lf(ka, ia, sa)}
    elif pk == 2:
        d['p'] = {'b': 1.0}
    elif pk == 3:
        d['p'] = lf(ka, ia, sa)
    # pk == 4: p missing
    if qk == 1:
        d['q'] = []
    elif qk == 2:
        d['q'] = [{'a': lf3(kb, ib, sb)}]
    elif qk == 3:
        d['q'] = [{'a': 1}, [lf3(kb, ib, sb)]]
    elif qk == 4:
        d['q'] = [[1, lf3(kb, ib, sb)], {'a': 2, 'zz': 0}]
    elif qk == 5:
        d['q'] = lf3(kb, ib, sb)
    if he:
        d['zz'] = 0
    return d


TEXTS = ('2020-01-02', '2020-13-01', '', 'abc', '2020-01-02T03:04:05', '(', 'a+', '[', 'a{2}')


def b_text(sel):
    if sel == 0:
        return TEXTS[0]
    elif sel == 1:
        return TEXTS[1]
    elif sel == 2:
        return TEXTS[2]
    elif sel == 3:
        return TEXTS[3]
    elif sel == 4:
        return TEXTS[4]
    elif sel == 5:
        return TEXTS[5]
    elif sel == 6:
        return TEXTS[6]
    elif sel == 7:
        return TEXTS[7]
    else:
        return TEXTS[8]


NUMTEXTS = ('1.5', 'abc', '1/0', '', 'nan', 5, 1.5, float('inf'), float('nan'), 10 ** 400, True, None, '1/3', [1])


def b_numtext(sel):
    """numeric text / numbers that make a stdlib constructor (Decimal, Fraction, float, complex) succeed or raise"""
    n = 0
    for x in NUMTEXTS:
        if n == sel:
            return x
        n += 1
    return None


_L = "0 <= {k} <= 5"
_L3 = "0 <= {k} <= 2"
# name -> (converter, signature, pre, expression building v, witnesses)
TD = {
    'tag_int': ('tag_int', "tk: int, ha: bool, ka: int, ia: int, sa: str, he: bool",
                "0 <= tk <= 8 and 0 <= ka <= 5", "b_tag_int(tk, ha, ka, ia, sa, he)", (0, -1)),
    'tag_ext': ('tag_ext', "tk: int, bk: int, ha: bool, ka: int, ia: int, sa: str, he: bool, n: int",
                "1 <= tk <= 8 and tk != 6 and tk != 7 and 0 <= bk <= 2 and 0 <= ka <= 5 and 0 <= n <= 2 and "
                "((n == 1 and tk <= 2) or (bk == 0 and not ha and not he))",
                "b_tag_ext(tk, bk, ha, ka, ia, sa, he, n)", (0, -1)),
    'tag_adj': ('tag_adj', "tk: int, bk: int, ha: bool, ka: int, ia: int, sa: str, he: bool, shape: int",
                "1 <= tk <= 8 and 0 <= bk <= 2 and 0 <= ka <= 5 and 0 <= shape <= 4 and "
                "((shape == 0 and tk <= 2) or (bk == 0 and not ha and not he))",
                "b_tag_adj(tk, bk, ha, ka, ia, sa, he, shape)", (0, -1)),
    'opt_tag_ext': ('opt_tag_ext', "tk: int, bk: int, ha: bool, ka: int, ia: int, sa: str, he: bool, n: int",
                    "1 <= tk <= 8 and tk != 6 and tk != 7 and 0 <= bk <= 2 and 0 <= ka <= 5 and 0 <= n <= 2 and "
                    "((n == 1 and tk <= 2) or (bk == 0 and not ha and not he))",
                    "b_tag_ext(tk, bk, ha, ka, ia, sa, he, n)", (0, -1)),
    'union_tag_adj': ('union_tag_adj', "tk: int, bk: int, ha: bool, ka: int, ia: int, sa: str, he: bool, shape: int",
                      "1 <= tk <= 8 and 0 <= bk <= 2 and 0 <= ka <= 5 and 0 <= shape <= 4 and "
                      "((shape == 0 and tk <= 2) or (bk == 0 and not ha and not he))",
                      "b_tag_adj(tk, bk, ha, ka, ia, sa, he, shape)", (0, -1)),
    'struct_in_struct': ('struct_in_struct', "pp: bool, pa: bool, ka: int, ia: int, sa: str, pb: bool, kb: int, ib: int, sb: str, pe: bool, pn: bool",
                      "0 <= ka <= 5 and 0 <= kb <= 2", "b_struct_nested(pp, pa, ka, ia, sa, pb, kb, ib, sb, pe, pn)", (0, -1)),
    'tag_int_none': ('tag_int_none', "tk: int, ha: bool, ka: int, ia: int, sa: str, he: bool",
                     "0 <= tk <= 8 and 0 <= ka <= 5", "b_tag_int(tk, ha, ka, ia, sa, he)", (0, -1)),
    'dict_fskey': ('dict_fskey', "n: int, ka: int, ia: int, sa: str, ib: int, two: bool",
                   "0 <= n <= 3 and 0 <= ka <= 5 and -1 <= ia <= 1 and -1 <= ib <= 1", "b_seqkey(n, ka, ia, sa, ib, two, False)", (0, -1)),
    'dict_tupkey': ('dict_tupkey', "n: int, ka: int, ia: int, sa: str, ib: int, two: bool",
                    "0 <= n <= 3 and 0 <= ka <= 5 and -1 <= ia <= 1 and -1 <= ib <= 1", "b_seqkey(n, ka, ia, sa, ib, two, True)", (0, -1)),
    'range': ('range', "hs: bool, he: bool, e: int, nsel: int, ssel: int",
              "0 <= e <= 1 and 0 <= nsel <= 7 and 0 <= ssel <= 4", "b_range(hs, he, e, nsel, ssel)", (0, -1)),
    'range_seq': ('range', "n: int, e: int, nsel: int, tup: bool",
                  "0 <= n <= 4 and 0 <= e <= 1 and 1 <= nsel <= 7", "b_range_seq(n, e, nsel, tup)", (0, -1)),
    'p2_seq': ('p2', "n: int, ka: int, ia: int, sa: str, kb: int, ib: int, sb: str, kc: int, ic: int, sc: str, tup: bool",
               "0 <= n <= 3 and 0 <= ka <= 5 and 0 <= kb <= 2 and 0 <= kc <= 2",
               "b_seq(n, ka, ia, sa, kb, ib, sb, kc, ic, sc, tup)", (0, -1)),
    'pt_seq': ('pt', "n: int, ka: int, ia: int, sa: str, kb: int, ib: int, sb: str, kc: int, ic: int, sc: str, tup: bool",
               "0 <= n <= 3 and 0 <= ka <= 5 and 0 <= kb <= 2 and 0 <= kc <= 2",
               "b_seq(n, ka, ia, sa, kb, ib, sb, kc, ic, sc, tup)", (0, -1)),
    'pi_seq': ('pi', "n: int, ka: int, ia: int, sa: str, kb: int, ib: int, sb: str, kc: int, ic: int, sc: str, tup: bool",
               "0 <= n <= 3 and 0 <= ka <= 5 and 0 <= kb <= 2 and 0 <= kc <= 2",
               "b_seq(n, ka, ia, sa, kb, ib, sb, kc, ic, sc, tup)", (0, -1)),
    'cond_set_seq': ('cond_set', "n: int, ka: int, ia: int, sa: str, kb: int, ib: int, sb: str, kc: int, ic: int, sc: str, tup: bool",
                     "0 <= n <= 3 and ka == 2 and kb == 1 and kc == 1 and -1 <= ia <= 1 and -1 <= ib <= 1 and -1 <= ic <= 1",
                     "b_seq(n, ka, ia, sa, kb, ib, sb, kc, ic, sc, tup)", (0, -1)),
    'union_tag_dict': ('union_tag_dict', "tk: int, ha: bool, ka: int, ia: int, sa: str, he: bool",
                       "0 <= tk <= 8 and 0 <= ka <= 5", "b_tag_int(tk, ha, ka, ia, sa, he)", (0, -1)),
    'ph_seq': ('ph', "n: int, ka: int, ia: int, sa: str, kb: int, ib: int, sb: str, kc: int, ic: int, sc: str, tup: bool",
               "0 <= n <= 3 and 0 <= ka <= 5 and 0 <= kb <= 2 and 0 <= kc <= 2",
               "b_seq(n, ka, ia, sa, kb, ib, sb, kc, ic, sc, tup)", (0, -1)),
    'tuple_fix_seq': ('tuple_fix', "n: int, ka: int, ia: int, sa: str, kb: int, ib: int, sb: str, kc: int, ic: int, sc: str, tup: bool",
                      "0 <= n <= 3 and 0 <= ka <= 5 and 0 <= kb <= 2 and 0 <= kc <= 2",
                      "b_seq(n, ka, ia, sa, kb, ib, sb, kc, ic, sc, tup)", (0, -1)),
    'list_int_seq': ('list_int', "n: int, ka: int, ia: int, sa: str, kb: int, ib: int, sb: str, kc: int, ic: int, sc: str, tup: bool",
                     "0 <= n <= 3 and 0 <= ka <= 5 and 0 <= kb <= 2 and 0 <= kc <= 2",
                     "b_seq(n, ka, ia, sa, kb, ib, sb, kc, ic, sc, tup)", (0, -1)),
    'cond_len_seq': ('cond_len', "n: int, ka: int, ia: int, sa: str, kb: int, ib: int, sb: str, kc: int, ic: int, sc: str, tup: bool",
                     "0 <= n <= 3 and 0 <= ka <= 5 and 0 <= kb <= 2 and 0 <= kc <= 2",
                     "b_seq(n, ka, ia, sa, kb, ib, sb, kc, ic, sc, tup)", (0, -1)),
    'tuple_struct': ('tuple_struct', "pa: bool, ka: int, ia: int, sa: str, pb: bool, kb: int, ib: int, sb: str, pe: bool",
                     "0 <= ka <= 5 and 0 <= kb <= 2", "(b_struct2(pa, ka, ia, sa, pb, kb, ib, sb, pe), 3)", (0, -1)),
    'ph_struct': ('ph', "pa: bool, ka: int, ia: int, sa: str, pb: bool, kb: int, ib: int, sb: str, pe: bool",
                  "0 <= ka <= 5 and 0 <= kb <= 2", "b_struct2(pa, ka, ia, sa, pb, kb, ib, sb, pe)", (0, -1)),
    'p1_struct': ('p1', "pa: bool, ka: int, ia: int, sa: str, pb: bool, kb: int, ib: int, sb: str, pe: bool",
                  "0 <= ka <= 5 and 0 <= kb <= 2", "b_struct2(pa, ka, ia, sa, pb, kb, ib, sb, pe)", (0, -1)),
    'p2_struct': ('p2', "pa: bool, ka: int, ia: int, sa: str, pb: bool, kb: int, ib: int, sb: str, pe: bool",
                  "0 <= ka <= 5 and 0 <= kb <= 2", "b_struct2(pa, ka, ia, sa, pb, kb, ib, sb, pe)", (0, -1)),
    'picky_map': ('picky', "pa: bool, ka: int, ia: int, sa: str, pb: bool, kb: int, ib: int, sb: str, pe: bool",
                  "0 <= ka <= 5 and 0 <= kb <= 2", "b_struct2(pa, ka, ia, sa, pb, kb, ib, sb, pe)", (0, -1)),
    'struct_struct': ('struct', "pa: bool, ka: int, ia: int, sa: str, pb: bool, kb: int, ib: int, sb: str, pe: bool",
                      "0 <= ka <= 5 and 0 <= kb <= 2", "b_struct2(pa, ka, ia, sa, pb, kb, ib, sb, pe)", (0, -1)),
    'pal': ('pal', "y1: int, y2: int, ka: int, ia: int, sa: str, bk: int",
            "0 <= y1 <= 3 and 0 <= y2 <= 4 and 0 <= ka <= 5 and 0 <= bk <= 3 and ((y2 == 4 and bk == 0) or ka == 2)", "b_pal(y1, y2, ka, ia, sa, bk)", (0, -1)),
    'nested': ('nested', "shape: int, ka: int, ia: int, sa: str", "0 <= shape <= 6 and 0 <= ka <= 5",
               "b_nested(shape, ka, ia, sa)", (0, -1)),
    'nested_ragged': ('nested_ragged', "shape: int, ka: int, ia: int, sa: str", "0 <= shape <= 6 and 0 <= ka <= 5",
                      "b_nested(shape, ka, ia, sa)", (0, -1)),
    'pn_p': ('pn', "pk: int, ka: int, ia: int, sa: str, qk: int, kb: int, ib: int, sb: str, he: bool",
             "0 <= pk <= 4 and 0 <= ka <= 5 and 0 <= qk <= 1 and kb == 0", "b_pn(pk, ka, ia, sa, qk, kb, ib, sb, he)", (0, -1)),
    'pn_q': ('pn', "pk: int, ka: int, ia: int, sa: str, qk: int, kb: int, ib: int, sb: str, he: bool",
             "pk == 0 and ka == 2 and 2 <= qk <= 5 and 0 <= kb <= 2 and not he", "b_pn(pk, ka, ia, sa, qk, kb, ib, sb, he)", (0, -1)),
    'decimal_num': ('decimal', "sel: int", "0 <= sel <= 13", "b_numtext(sel)", (0, -1)),
    'fraction_num': ('fraction', "sel: int", "0 <= sel <= 13", "b_numtext(sel)", (0, -1)),
    'float_num': ('float', "sel: int", "0 <= sel <= 13", "b_numtext(sel)", (0, -1)),
    'complex_num': ('complex', "sel: int", "0 <= sel <= 13", "b_numtext(sel)", (0, -1)),
    'tuple_fix_num': ('tuple_fix', "sel: int", "0 <= sel <= 13", "[1, b_numtext(sel)]", (0, -1)),
    'p1_num': ('p1', "sel: int", "0 <= sel <= 13", "{'a': 1, 'b': b_numtext(sel)}", (0, -1)),
    'date_text': ('date', "sel: int", "0 <= sel <= 8", "b_text(sel)", (0, -1)),
    'pattern_text': ('pattern', "sel: int", "0 <= sel <= 8", "b_text(sel)", (0, -1)),
}

_TD = '''
@obligation(pre={pre!r}, witnesses={wit!r}, timeout={timeout})
def body_td_{name}({sig}) -> int:
    """{what}: {conv} converter, type-directed near-valid values ({name})"""
    v = {expr}
    return ORACLE({conv!r}, v, 'T')
'''


def emit_td(ns, what, names=None, timeout=120):
    for (name, (conv, sig, pre, expr, wit)) in TD.items():
        if names is not None and name not in names:
            continue
        exec(_TD.format(name=name, conv=conv, sig=sig, pre=pre, expr=expr, wit=wit, timeout=timeout, what=what), ns)


# ------------------------------------------------------------------ history of generic subscriptions (lru_cache memo: run untraced)

_GT = t.TypeVar('_GT')


class GBoxH(PaneBase, t.Generic[_GT]):
    x: _GT


GH_ARGS = (list[t.Union[int, float]], list[t.Union[float, int]], dict[str, t.Union[int, str]], dict[str, t.Union[str, int]],
           list[t.Union[int, str]], list[t.Union[str, int]])
GH_DATA = ([1], [1], {'k': 1}, {'k': 1}, [1.5], [1.5])
GH_WANT = ([1], [1.0], {'k': 1}, {'k': 1}, None, None)           # None: rejected
GH_ORDER = (('an int', 'a float'), ('a float', 'an int'), None, None, ('an int', 'a string'), ('a string', 'an int'))


def generic_history(first, second):
    """subscribe GBoxH with two equal-comparing but differently ordered arguments, in the given order (concretely: the
    subscription memo is an lru_cache, which CrossHair bypasses under the tracer), then convert through both.
    Returns a list of (index, accepted, value, error tree or None)."""
    import sys as _sys
    pcl = _sys.modules['pane.classes']
    with hlib.untraced():
        for name in ('_make_subclass', '_make_subclass_cached'):
            f = getattr(pcl, name, None)
            if f is not None and hasattr(f, 'cache_clear'):
                f.cache_clear()
        classes = {}
        for k in (first, second, first):
            classes[k] = GBoxH[GH_ARGS[k]]
    out = []
    for k in (first, second):
        cls = classes[k]
        try:
            r = cls.from_data({'x': GH_DATA[k]})
            out.append((k, True, r.x, None))
        except pane.ConvertError as e:
            out.append((k, False, None, e.tree))
    return out


def check_generic_history(first, second, with_tree=False):
    """verdict 0 / violation code 20 (value depends on subscription order), 21 (error tree lists the union members in the
    order of ANOTHER parameterisation)"""
    for (k, ok, val, tree) in generic_history(first, second):
        want = GH_WANT[k]
        if want is None:
            if ok:
                return 20
            if with_tree:
                node = tree.children.get('x') if hasattr(tree, 'children') else None
                node = node.children.get(0) if (node is not None and hasattr(node, 'children') and isinstance(node.children, dict)) else None
                order = GH_ORDER[k]
                if node is None or not hasattr(node, 'children') or len(node.children) != 2:
                    return 21
                if node.children[0].expected != order[0] or node.children[1].expected != order[1]:
                    return 21
        else:
            if not ok or not hlib.eqv(val, want):
                return 20
    return 0


def alias_pair(k):
    """two builtin aliases that compare equal but order a nested union differently (new objects on every call: PEP 585
    aliases are not interned), the data to convert and the image under each"""
    import fractions
    if k == 0:
        return list[t.Union[int, float]], list[t.Union[float, int]], [1, 2], [1, 2], [1.0, 2.0]
    elif k == 1:
        return (dict[str, t.Union[int, float, None]], dict[str, t.Union[float, int, None]], {'k': 1, 'n': None}, {'k': 1, 'n': None},
                {'k': 1.0, 'n': None})
    elif k == 2:
        return (tuple[t.Union[str, fractions.Fraction], ...], tuple[t.Union[fractions.Fraction, str], ...], ['1/2'], ('1/2',),
                (fractions.Fraction(1, 2),))
    elif k == 3:
        return list[list[t.Union[bool, int]]], list[list[t.Union[int, bool]]], [[True, 1]], [[True, 1]], [[1, 1]]
    elif k == 4:
        return (dict[str, list[t.Union[int, str]]], dict[str, list[t.Union[str, int]]], {'k': [1, 'a']}, {'k': [1, 'a']}, {'k': [1, 'a']})
    elif k == 5:
        # tuple TYPE LITERALS: equal and hashable, yet not interchangeable
        return ((t.Union[int, float], str), (t.Union[float, int], str), [1, 'a'], (1, 'a'), (1.0, 'a'))
    elif k == 6:
        return (((t.Union[int, float], int), str), ((t.Union[float, int], int), str), [[1, 2], 'a'], ((1, 2), 'a'), ((1.0, 2), 'a'))
    else:
        return ({'a': t.Union[int, float]}, {'a': t.Union[float, int]}, {'a': 1}, {'a': 1}, {'a': 1.0})



def alias_history(k, first):
    """convert through two equal-comparing but differently ordered types, twice, in the given order: 0 ok, 4 wrong image, 7 raised"""
    (Ta, Tb, data, wa, wb) = alias_pair(k)
    order = ((Ta, wa), (Tb, wb)) if first == 0 else ((Tb, wb), (Ta, wa))
    for rnd in range(2):
        for (T, want) in order:
            try:
                r = pane.from_data(data, T)
            except Exception as e:
                if hlib.crosshair_exc(e):
                    raise
                return 7
            if not hlib.eqv(r, want):
                return 4
    return 0


def warm(fn):
    """Run fn(name, sample) concretely over every converter and sample (DESIGN.md 2.1 rule 2); best effort."""
    for name in CONVS:
        for s in SAMPLES:
            try:
                fn(name, s)
            except Exception:
                pass


def export(ns):
    """Names the generated bodies need in the harness module's namespace."""
    for k in ('obligation', 'gv', 'gvf', 'lf', 'lf3', 'b_tag_int', 'b_tag_ext', 'b_tag_adj', 'b_range', 'b_seq', 'b_struct2',
              'b_pal', 'b_nested', 'b_pn', 'b_text', 'b_range_seq', 'b_numtext', 'b_seqkey', 'b_struct_nested'):
        ns[k] = globals()[k]
