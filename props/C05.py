"""C05 -- serialise / parse round trip."""
import os

HERE = os.path.dirname(os.path.abspath(__file__))


def harness_files(tier, seed):
    files = [os.path.join(HERE, 'hC05.py')]
    if tier == 'thorough':
        # the 24 depth-3 type expressions drawn from the grammar with VERIF_SEED (props/gen_types.py), under this property's oracle
        os.environ['VERIF_SEED'] = str(seed)
        files.append(os.path.join(HERE, 'hC05g.py'))
    return files


META = dict(
    bounds="data d: the generic depth-1 and type-directed near-valid values of props/shared.py; per dataclass configuration keys chosen "
           "by the solver among the name forms, leaf values of 6 kinds",
    configs="the 58 types of the shared table that have a serialised form + 10 dataclass configurations (tuple/struct output x input "
            "layouts, class rename, in_rename/out_rename, aliases, field rename, in_names/out_name, keyword-only, exclude, nested) + thorough tier: 24 type expressions of nesting depth 3 drawn from the grammar with VERIF_SEED (props/gen_types.py), type-directed values with 3 symbolic leaf slots, under this property's oracle",
    stubs=[],
    outside=["configurations where the user set out_name outside in_names or out_format outside in_format (excluded by the statement)",
             "untagged unions whose members overlap on the serialised form (left-most member wins by C11)",
             "JSON/YAML text (C19)"],
    assumptions=["oracle: from_data after into_data against the value itself"],
)
