"""Engine E2: a small symbolic interpreter for the renaming kernel of /repo/pane/field.py (DESIGN.md section 4).

Strings are concrete-length vectors of z3 Int code points; paths are explored by re-execution with a decision prefix;
every symbolic branch condition is decided by z3.  Only the subset of Python that field.py uses is supported; anything
else raises Unsupported (the check then exits 2: never a pass, never a violation)."""
import ast, re, itertools, sys, time
import z3
try:
    import re._parser as sre_parse, re._constants as sre_c
except ImportError:
    import sre_parse, sre_constants as sre_c

class Unsupported(Exception): pass
class PyRaise(Exception):
    def __init__(self, exc): self.exc = exc
class _Return(Exception):
    def __init__(self, v): self.v = v
class _Break(Exception): pass
class Infeasible(Exception): pass

# ---------------- symbolic values
def is_up(e): return z3.And(e >= 65, e <= 90)
def is_lo(e): return z3.And(e >= 97, e <= 122)
def is_cased(e): return z3.Or(is_up(e), is_lo(e))

class SBool:
    def __init__(self, e): self.e = e
class SStr:
    def __init__(self, cs, share=False): self.cs = cs if share else list(cs)
    def __len__(self): return len(self.cs)
def lift(s):
    return s if isinstance(s, SStr) else SStr([z3.IntVal(ord(c)) for c in s])
def cat(a, b): return SStr(lift(a).cs + lift(b).cs)
def seq_eq(a, b):
    a, b = lift(a), lift(b)
    if len(a) != len(b): return False
    if not a.cs: return True
    return SBool(z3.And(*[x == y for x, y in zip(a.cs, b.cs)]))

class Ctx:
    """one path = one run; decisions replayed from a prefix, new ones forked"""
    def __init__(self, solver):
        self.s = solver; self.prefix = []; self.trail = []; self.work = []; self.queries = 0
    def decide(self, e):
        e = z3.simplify(e)
        if z3.is_true(e): return True
        if z3.is_false(e): return False
        i = len(self.trail)
        if i < len(self.prefix):
            val = self.prefix[i]
        else:
            can = {}
            for val in (True, False):
                self.s.push(); self.s.add(e if val else z3.Not(e)); self.queries += 1
                can[val] = self.s.check() == z3.sat
                self.s.pop()
            if can[True] and can[False]:
                self.work.append(self.trail_vals() + [False]); val = True
            elif can[True]: val = True
            elif can[False]: val = False
            else: raise Infeasible()
        self.trail.append((e, val))
        self.s.add(e if val else z3.Not(e))
        return val
    def trail_vals(self): return [v for _, v in self.trail]
CTX = None
def truth(v):
    if isinstance(v, SBool): return CTX.decide(v.e)
    if isinstance(v, SStr): return len(v) > 0
    return bool(v)

# ---------------- models of library primitives (ASCII)
def m_lower(s): return SStr([z3.If(is_up(c), c + 32, c) for c in s.cs])
def m_upper(s): return SStr([z3.If(is_lo(c), c - 32, c) for c in s.cs])
def m_title(s):
    out = []; prev = z3.BoolVal(False)
    for c in s.cs:
        out.append(z3.If(prev, z3.If(is_up(c), c + 32, c), z3.If(is_lo(c), c - 32, c))); prev = is_cased(c)
    return SStr(out)
def m_islower(s):
    if not s.cs: return False
    return SBool(z3.And(z3.Not(z3.Or(*[is_up(c) for c in s.cs])), z3.Or(*[is_lo(c) for c in s.cs])))
def m_isupper(s):
    if not s.cs: return False
    return SBool(z3.And(z3.Not(z3.Or(*[is_lo(c) for c in s.cs])), z3.Or(*[is_up(c) for c in s.cs])))
def m_istitle(s):
    if not s.cs: return False
    ok = []; prev = z3.BoolVal(False)
    for c in s.cs:
        ok += [z3.Implies(is_up(c), z3.Not(prev)), z3.Implies(is_lo(c), prev)]; prev = is_cased(c)
    return SBool(z3.And(z3.And(*ok), z3.Or(*[is_cased(c) for c in s.cs])))
def m_split(s, sep=None, maxsplit=-1):
    """str.split(sep) for a concrete single-character separator"""
    if not isinstance(sep, str) or len(sep) != 1 or maxsplit != -1: raise Unsupported("str.split with this separator")
    s = lift(s); parts = []; cur = []
    for c in s.cs:
        if CTX.decide(c == ord(sep)):
            parts.append(SStr(cur)); cur = []
        else: cur.append(c)
    parts.append(SStr(cur))
    return parts
def m_contains(s, sub):
    """`sub in s` for a concrete single character"""
    if not isinstance(sub, str) or len(sub) != 1: raise Unsupported("`in` with this operand")
    s = lift(s)
    if not s.cs: return False
    return SBool(z3.Or(*[c == ord(sub) for c in s.cs]))
def m_capitalize(s):
    if not s.cs: return SStr([])
    return SStr([z3.If(is_lo(s.cs[0]), s.cs[0] - 32, s.cs[0])] + [z3.If(is_up(c), c + 32, c) for c in s.cs[1:]])
def m_replace(s, old, new, count=-1):
    """str.replace for strings of concrete length: non-overlapping matches, left to right; each potential match is a decision"""
    s, old, new = lift(s), lift(old), lift(new)
    if len(old) == 0: raise Unsupported("replace of the empty string")
    if not isinstance(count, int): raise Unsupported("symbolic count")
    out = []; i = 0; done = 0
    while i < len(s.cs):
        if i + len(old) <= len(s.cs) and (count < 0 or done < count) and \
                CTX.decide(z3.And(*[s.cs[i + j] == old.cs[j] for j in range(len(old))])):
            out.extend(new.cs); i += len(old); done += 1
        else:
            out.append(s.cs[i]); i += 1
    return SStr(out)
STR_METHODS = dict(lower=m_lower, upper=m_upper, title=m_title, islower=m_islower, isupper=m_isupper, istitle=m_istitle)

def class_pred(items):
    def pred(c):
        alts = []
        for op, av in items:
            if op == sre_c.LITERAL: alts.append(c == av)
            elif op == sre_c.RANGE: alts.append(z3.And(c >= av[0], c <= av[1]))
            else: raise Unsupported(f"regex class item {op}")
        return z3.Or(*alts)
    return pred
def m_re_split(pattern, s):
    """re.split(pattern, s) for patterns that sre_parse shows to be one character class, optionally repeated with `+`,
    optionally inside one capture group.  Anything else: Unsupported."""
    if not isinstance(pattern, str): raise Unsupported("symbolic pattern")
    p = list(sre_parse.parse(pattern)); capture = False
    if len(p) == 1 and p[0][0] == sre_c.SUBPATTERN and p[0][1][1] == 0 and p[0][1][2] == 0:
        capture = True; p = list(p[0][1][3])
    plus = False
    if len(p) == 1 and p[0][0] == sre_c.MAX_REPEAT and p[0][1][0] == 1 and p[0][1][1] == sre_c.MAXREPEAT:
        plus = True; p = list(p[0][1][2])
    if len(p) == 1 and p[0][0] == sre_c.LITERAL:
        p = [(sre_c.IN, [p[0]])]
    if not (len(p) == 1 and p[0][0] == sre_c.IN): raise Unsupported(f"regex {pattern!r}")
    items = list(p[0][1])
    if items and items[0][0] == sre_c.NEGATE: raise Unsupported(f"regex {pattern!r}")
    pred = class_pred(items)
    s = lift(s); parts = []; cur = []; run = None
    for c in s.cs:
        if CTX.decide(pred(c)):
            if plus and run is not None:
                run.append(c)          # maximal run of separators: still the same separator
                continue
            parts.append(SStr(cur)); cur = []
            run = [c]
            if capture: parts.append(SStr(run, share=True))   # (list shared: a longer run extends the captured text)
        else:
            cur.append(c); run = None
    parts.append(SStr(cur))
    return parts

def _re_match(nodes, s, pos, k):
    """backtracking matcher over parsed sre nodes; k(pos) is the continuation; every character test is a decision"""
    if not nodes: return k(pos)
    (op, av) = nodes[0]; rest = nodes[1:]
    if op == sre_c.LITERAL:
        return pos < len(s.cs) and CTX.decide(s.cs[pos] == av) and _re_match(rest, s, pos + 1, k)
    if op == sre_c.NOT_LITERAL:
        return pos < len(s.cs) and CTX.decide(s.cs[pos] != av) and _re_match(rest, s, pos + 1, k)
    if op == sre_c.ANY:
        return pos < len(s.cs) and CTX.decide(s.cs[pos] != 10) and _re_match(rest, s, pos + 1, k)
    if op == sre_c.IN:
        items = list(av); neg = False
        if items and items[0][0] == sre_c.NEGATE: neg = True; items = items[1:]
        if pos >= len(s.cs): return False
        hit = CTX.decide(class_pred(items)(s.cs[pos]))
        return (hit != neg) and _re_match(rest, s, pos + 1, k)
    if op == sre_c.AT:
        if av in (sre_c.AT_BEGINNING, sre_c.AT_BEGINNING_STRING): return pos == 0 and _re_match(rest, s, pos, k)
        if av in (sre_c.AT_END_STRING,): return pos == len(s.cs) and _re_match(rest, s, pos, k)
        if av == sre_c.AT_END:
            return (pos == len(s.cs) or (pos == len(s.cs) - 1 and CTX.decide(s.cs[pos] == 10))) and _re_match(rest, s, pos, k)
        raise Unsupported(f"regex anchor {av}")
    if op == sre_c.BRANCH:
        for alt in av[1]:
            if _re_match(list(alt) + rest, s, pos, k): return True
        return False
    if op == sre_c.SUBPATTERN:
        return _re_match(list(av[3]) + rest, s, pos, k)
    if op in (sre_c.MAX_REPEAT, sre_c.MIN_REPEAT):
        (lo, hi, sub) = av; sub = list(sub)
        def rep(p, n):
            if n >= lo and _re_match(rest, s, p, k): return True
            if n < hi and n < len(s.cs) + 1:
                return _re_match(sub, s, p, lambda q: q > p and rep(q, n + 1))
            return False
        return rep(pos, 0)
    raise Unsupported(f"regex op {op}")
def m_re_search(pattern, s, anchored=False, full=False):
    """bool(re.search / match / fullmatch) for a concrete pattern within the supported regex subset"""
    if isinstance(pattern, RePattern): pattern = pattern.pat
    if not isinstance(pattern, str): raise Unsupported("symbolic pattern")
    nodes = list(sre_parse.parse(pattern)); s = lift(s)
    end = (lambda q: q == len(s.cs)) if full else (lambda q: True)
    starts = [0] if anchored else range(len(s.cs) + 1)
    for st in starts:
        if _re_match(nodes, s, st, end): return True
    return None
# ---------------- the interpreter
class AssocDict:
    """a dict whose keys may be symbolic strings: lookup decides key equality entry by entry"""
    def __init__(self): self.items = []
    def lookup(self, k):
        for (k2, v) in self.items:
            if _key_eq(k, k2): return True, v
        return False, None
    def store(self, k, v):
        for i, (k2, _) in enumerate(self.items):
            if _key_eq(k, k2):
                self.items[i] = (k2, v); return
        self.items.append((k, v))
def _key_eq(a, b):
    if isinstance(a, (SStr, str)) and isinstance(b, (SStr, str)):
        r = seq_eq(a, b)
        return truth(r) if not isinstance(r, bool) else r
    return a == b
def _isinstance(x, ty):
    if ty is str: return isinstance(x, (str, SStr))
    return isinstance(x, ty)
class RePattern:
    def __init__(self, pat):
        if not isinstance(pat, str): raise Unsupported("symbolic regex")
        self.pat = pat
class Closure:
    def __init__(self, node, env, is_gen): self.node, self.env, self.is_gen = node, env, is_gen
class Opaque:
    def __init__(self, name): self.name = name

def has_yield(fn):
    for n in ast.walk(fn):
        if isinstance(n, (ast.Yield, ast.YieldFrom)):
            # ignore yields of nested defs
            return True
    return False

class Interp:
    def __init__(self, module_src):
        self.mod = ast.parse(module_src); self.genv = {}
        self.genv.update(all=lambda it: all(truth(x) for x in it), enumerate=enumerate, tuple=tuple, iter=iter,
                         next=self.b_next, map=lambda f, it: [self.call(f, [x]) for x in it], ValueError=ValueError,
                         StopIteration=StopIteration)
        self.genv['re'] = {'split': m_re_split, 'compile': lambda pat, *a: RePattern(pat), 'search': lambda pat, s: m_re_search(pat, s),
                           'match': lambda pat, s: m_re_search(pat, s, anchored=True),
                           'fullmatch': lambda pat, s: m_re_search(pat, s, anchored=True, full=True)}
        self.genv['itertools'] = {'chain': {'from_iterable': lambda its: [x for it in its for x in it]}}
        self.genv.update(KeyError=KeyError, len=lambda x: len(x), isinstance=_isinstance, str=str, any=lambda it: any(truth(x) for x in it))
        self.state_stmts = []
        for st in self.mod.body:
            if isinstance(st, ast.FunctionDef):      # every module-level function (helpers added next to the kernel are reached through it)
                self.genv[st.name] = Closure(st, self.genv, self.is_generator(st))
            if isinstance(st, ast.AnnAssign) and isinstance(st.target, ast.Name) and st.target.id == '_CONVERT_FNS':
                self.genv['_CONVERT_FNS'] = self.ev(st.value, self.genv)
            elif isinstance(st, (ast.Assign, ast.AnnAssign)) and st.value is not None:
                # other module-level state the kernel may use (caches, precompiled patterns): evaluated if within the subset,
                # re-evaluated at the start of every path (reset_state) so that no state leaks between paths
                tg = st.target if isinstance(st, ast.AnnAssign) else (st.targets[0] if len(st.targets) == 1 else None)
                if isinstance(tg, ast.Name) and not tg.id.isupper() or (isinstance(tg, ast.Name) and tg.id.startswith('_') and tg.id != '_MISSING'):
                    try:
                        self.genv[tg.id] = self.ev(st.value, self.genv)
                        self.state_stmts.append((tg.id, st.value))
                    except Unsupported:
                        pass
                    except Exception:
                        pass
    def reset_state(self):
        for (name, value) in self.state_stmts:
            self.genv[name] = self.ev(value, self.genv)
    def is_generator(self, fn):
        for st in fn.body:
            if isinstance(st, (ast.FunctionDef, ast.Lambda)): continue
            for n in self.walk_no_nested(st):
                if isinstance(n, (ast.Yield, ast.YieldFrom)): return True
        return False
    def walk_no_nested(self, node):
        yield node
        for ch in ast.iter_child_nodes(node):
            if isinstance(ch, (ast.FunctionDef, ast.Lambda)): continue
            yield from self.walk_no_nested(ch)
    def b_next(self, it):
        try: return next(it)
        except StopIteration as e: raise PyRaise(e)
    # ---- calls
    def call(self, f, args):
        if isinstance(f, Closure):
            node = f.node; env = dict(f.env)
            params = [a.arg for a in node.args.args]
            defaults = node.args.defaults
            vals = list(args) + [self.ev(d, f.env) for d in defaults[len(defaults) - (len(params) - len(args)):]] if len(args) < len(params) else list(args)
            env.update(zip(params, vals))
            if isinstance(node, ast.Lambda): return self.ev(node.body, env)
            if f.is_gen:
                out = []; env['__yield__'] = out
                try: self.block(node.body, env)
                except _Return: pass
                return out
            try: self.block(node.body, env)
            except _Return as r: return r.v
            return None
        if callable(f): return f(*args)
        raise Unsupported(f"call of {f!r}")
    # ---- statements
    def block(self, body, env):
        for st in body: self.stmt(st, env)
    def stmt(self, st, env):
        if isinstance(st, ast.Expr):
            self.ev(st.value, env)
        elif isinstance(st, ast.Assign):
            v = self.ev(st.value, env)
            for tg in st.targets: self.assign(tg, v, env)
        elif isinstance(st, ast.Return):
            raise _Return(self.ev(st.value, env) if st.value else None)
        elif isinstance(st, ast.If):
            self.block(st.body if truth(self.ev(st.test, env)) else st.orelse, env)
        elif isinstance(st, ast.Raise):
            raise PyRaise(self.ev(st.exc, env))
        elif isinstance(st, ast.For):
            for x in self.ev(st.iter, env):
                self.assign(st.target, x, env)
                try: self.block(st.body, env)
                except _Break: break
        elif isinstance(st, ast.While):
            if not (isinstance(st.test, ast.Constant) and st.test.value is True): raise Unsupported("while")
            while True:
                try: self.block(st.body, env)
                except _Break: break
        elif isinstance(st, ast.Break): raise _Break()
        elif isinstance(st, ast.Pass): pass
        elif isinstance(st, ast.Try):
            try: self.block(st.body, env)
            except PyRaise as pr:
                for h in st.handlers:
                    if isinstance(pr.exc, self.ev(h.type, env)) or (isinstance(pr.exc, type) and issubclass(pr.exc, self.ev(h.type, env))):
                        self.block(h.body, env); break
                else: raise
        elif isinstance(st, ast.FunctionDef):
            env[st.name] = Closure(st, env, self.is_generator(st))
        else: raise Unsupported(f"stmt {type(st).__name__} line {st.lineno}")
    def assign(self, tg, v, env):
        if isinstance(tg, ast.Name): env[tg.id] = v
        elif isinstance(tg, ast.Subscript):
            d = self.ev(tg.value, env)
            if not isinstance(d, AssocDict): raise Unsupported("subscript store")
            d.store(self.ev(tg.slice, env), v)
        elif isinstance(tg, ast.Tuple):
            v = list(v)
            for t_, x in zip(tg.elts, v): self.assign(t_, x, env)
        else: raise Unsupported("assign target")
    # ---- expressions
    def ev(self, e, env):
        if isinstance(e, ast.Constant): return e.value
        if isinstance(e, ast.Name):
            if e.id in env: return env[e.id]
            raise Unsupported(f"name {e.id}")
        if isinstance(e, ast.JoinedStr): return Opaque('fstring')
        if isinstance(e, ast.Tuple): return tuple(self.ev(x, env) for x in e.elts)
        if isinstance(e, ast.Dict):
            if not e.keys: return AssocDict()
            return {self.ev(k, env): self.ev(v, env) for k, v in zip(e.keys, e.values)}
        if isinstance(e, ast.Lambda): return Closure(e, env, False)
        if isinstance(e, ast.IfExp): return self.ev(e.body if truth(self.ev(e.test, env)) else e.orelse, env)
        if isinstance(e, ast.BoolOp):
            v = None
            for x in e.values:
                v = self.ev(x, env); tv = truth(v)
                if isinstance(e.op, ast.Or) and tv: return v
                if isinstance(e.op, ast.And) and not tv: return v
            return v
        if isinstance(e, ast.UnaryOp) and isinstance(e.op, ast.Not): return not truth(self.ev(e.operand, env))
        if isinstance(e, ast.Compare) and len(e.ops) == 1:
            a, b = self.ev(e.left, env), self.ev(e.comparators[0], env); op = e.ops[0]
            if isinstance(a, (SStr, str)) and isinstance(b, (SStr, str)) and (isinstance(a, SStr) or isinstance(b, SStr)):
                r = seq_eq(a, b)
                if isinstance(op, ast.Eq): return r
                if isinstance(op, ast.NotEq): return (not r) if isinstance(r, bool) else SBool(z3.Not(r.e))
            if isinstance(op, (ast.In, ast.NotIn)) and isinstance(b, SStr):
                r = m_contains(b, a)
                if isinstance(op, ast.In): return r
                return (not r) if isinstance(r, bool) else SBool(z3.Not(r.e))
            if isinstance(op, (ast.In, ast.NotIn)) and isinstance(b, AssocDict):
                (found, _x) = b.lookup(a)
                return found if isinstance(op, ast.In) else (not found)
            if isinstance(op, (ast.In, ast.NotIn)) and isinstance(b, (list, tuple)):
                found = False
                for x in b:
                    if _key_eq(a, x):
                        found = True; break
                return found if isinstance(op, ast.In) else (not found)
            if isinstance(op, ast.Eq): return a == b
            if isinstance(op, ast.NotEq): return a != b
            if isinstance(op, ast.Is): return a is b
            if isinstance(op, ast.IsNot): return a is not b
            raise Unsupported("compare op")
        if isinstance(e, ast.BinOp) and isinstance(e.op, ast.Add):
            a, b = self.ev(e.left, env), self.ev(e.right, env)
            if isinstance(a, (SStr, str)) and isinstance(b, (SStr, str)): return cat(a, b) if (isinstance(a, SStr) or isinstance(b, SStr)) else a + b
            return a + b
        if isinstance(e, ast.Subscript):
            v = self.ev(e.value, env)
            if isinstance(e.slice, ast.Slice):
                lo = self.ev(e.slice.lower, env) if e.slice.lower else None; hi = self.ev(e.slice.upper, env) if e.slice.upper else None
                return v[lo:hi]
            if isinstance(v, AssocDict):
                found, x = v.lookup(self.ev(e.slice, env))
                if not found: raise PyRaise(KeyError())
                return x
            return v[self.ev(e.slice, env)]
        if isinstance(e, ast.Attribute):
            v = self.ev(e.value, env)
            if isinstance(v, dict) and e.attr in v: return v[e.attr]          # stub modules
            if isinstance(v, RePattern):
                if e.attr == 'search': return lambda s_, p=v.pat: m_re_search(p, s_)
                if e.attr == 'match': return lambda s_, p=v.pat: m_re_search(p, s_, anchored=True)
                if e.attr == 'fullmatch': return lambda s_, p=v.pat: m_re_search(p, s_, anchored=True, full=True)
                if e.attr == 'split': return lambda s_, p=v.pat: m_re_split(p, s_)
            if isinstance(v, AssocDict):
                if e.attr == 'get':
                    def _get(k, default=None, d=v):
                        found, x = d.lookup(k)
                        return x if found else default
                    return _get
            if isinstance(v, (list, tuple)) and e.attr == 'index':
                def _index(x, seq=v):
                    # list.index / tuple.index over possibly symbolic strings: the first element EQUAL to x (a decision per element)
                    n = 0
                    for y in seq:
                        if _key_eq(x, y): return n
                        n += 1
                    raise PyRaise(ValueError())
                return _index
            if isinstance(v, (list, tuple)) and e.attr == 'count':
                def _count(x, seq=v):
                    n = 0
                    for y in seq:
                        if _key_eq(x, y): n += 1
                    return n
                return _count
            if isinstance(v, (SStr, str)):
                if e.attr == 'join': return lambda it, sep=v: self.join(sep, it)
                if e.attr in STR_METHODS: return lambda s=lift(v), f=STR_METHODS[e.attr]: f(s)
                if e.attr == 'replace': return lambda old, new, count=-1, s=lift(v): m_replace(s, old, new, count)
                if e.attr == 'capitalize': return lambda s=lift(v): m_capitalize(s)
                if e.attr == 'split': return lambda sep=None, maxsplit=-1, s=lift(v): m_split(s, sep, maxsplit)
            raise Unsupported(f"attribute {e.attr} line {e.lineno}")
        if isinstance(e, ast.Call):
            f = self.ev(e.func, env); args = [self.ev(a, env) for a in e.args]
            if e.keywords: raise Unsupported("kwargs")
            return self.call(f, args)
        if isinstance(e, ast.GeneratorExp) and len(e.generators) == 1:
            g = e.generators[0]; out = []
            for x in self.ev(g.iter, env):
                env2 = dict(env); self.assign(g.target, x, env2)
                if all(truth(self.ev(c, env2)) for c in g.ifs): out.append(self.ev(e.elt, env2))
            return out
        if isinstance(e, ast.Yield):
            env['__yield__'].append(self.ev(e.value, env)); return None
        raise Unsupported(f"expr {type(e).__name__} line {getattr(e, 'lineno', '?')}")
    def join(self, sep, it):
        out = SStr([]); first = True
        for x in it:
            if not first: out = cat(out, sep)
            out = cat(out, x); first = False
        return out

def explore(interp, base_constraints, run):
    """run(ctx) -> result; yields (path_condition, result) for every feasible path"""
    global CTX
    work = [[]]; total_q = 0
    while work:
        prefix = work.pop()
        s = z3.Solver(); s.add(*base_constraints)
        CTX = Ctx(s); CTX.prefix = prefix
        if hasattr(interp, 'reset_state'): interp.reset_state()
        try:
            try: res = ('ok', run())
            except PyRaise as pr: res = ('raise', pr.exc)
        except Infeasible:
            continue
        work.extend(CTX.work); total_q += CTX.queries
        yield s, res, CTX.queries
