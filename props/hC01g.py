"""C01, thorough tier: type expressions of nesting depth 3 drawn from the type grammar with VERIF_SEED, checked against the
reference model props/spec.py on type-directed values with three symbolic leaf slots.

The types are regenerated from the seed at import (the replay scripts carry the seed), so nothing is stored.
Verdict codes as in hC01.  Witness classes: 0 accepted, -1 rejected.
"""
import os
import random
import typing as t
from typing import Literal, Optional, List

import pane
from pane.annotations import Positive
from pane.convert import make_converter
from pane.errors import ConvertError

from hlib import obligation, crosshair_exc, eqv, lf
from props import spec as S
from props.shared import P1, E1, EI

SEED = int(os.environ.get('VERIF_SEED', '0') or 0)
N_TYPES = 24
PREDS = {Positive: lambda x: x > 0}

LEAVES = [int, float, str, bool, type(None), Literal['a', 1], E1, EI, P1, t.Annotated[int, Positive], t.Any]
HASHABLE_LEAVES = [int, str, bool, Literal['a', 1], E1]


def gen_type(rnd, depth):
    """a random type expression of nesting depth <= depth from the grammar of DESIGN.md 3.2"""
    if depth == 0 or rnd.random() < 0.15:
        return rnd.choice(LEAVES)
    c = rnd.randrange(9)
    if c == 0:
        return t.List[gen_type(rnd, depth - 1)]
    elif c == 1:
        return t.Tuple[gen_type(rnd, depth - 1), gen_type(rnd, depth - 1)]
    elif c == 2:
        return t.Tuple[gen_type(rnd, depth - 1), ...]
    elif c == 3:
        return t.Dict[str, gen_type(rnd, depth - 1)]
    elif c == 4:
        return Optional[gen_type(rnd, depth - 1)]
    elif c == 5:
        a, b = gen_type(rnd, depth - 1), gen_type(rnd, depth - 1)
        try:
            return t.Union[a, b]
        except TypeError:
            return t.List[a]
    elif c == 6:
        return {'a': gen_type(rnd, depth - 1), 'b': gen_type(rnd, depth - 1)}
    elif c == 7:
        return t.Set[rnd.choice(HASHABLE_LEAVES)]
    else:
        return t.Sequence[gen_type(rnd, depth - 1)]


def _typing_ok(T):
    return not isinstance(T, (dict, tuple))


def gen_types(seed):
    rnd = random.Random(424242 + seed)
    out = []
    tries = 0
    while len(out) < N_TYPES and tries < 500:
        tries += 1
        try:
            T = gen_type(rnd, 3)
            make_converter(T)
        except TypeError:
            continue        # struct literals cannot sit inside typing generics: regenerate
        out.append(T)
    return out


GEN = gen_types(SEED)


class Slots:
    def __init__(self, slots):
        self.slots = list(slots)
        self.n = 0

    def next(self):
        if self.n < len(self.slots):
            s = self.slots[self.n]
        else:
            s = (2, 1, 'a')            # beyond the third leaf: a fixed int
        self.n += 1
        return s


def build(T, sl, alt):
    """a value shaped like T (so that only the LEAVES decide membership), leaves from the symbolic slots; `alt` picks the
    second member of unions / None for Optional / the empty container"""
    if isinstance(T, dict):
        return {k: build(v, sl, alt) for (k, v) in T.items()}
    origin = t.get_origin(T)
    args = t.get_args(T)
    if origin is t.Annotated:
        return build(args[0], sl, alt)
    if origin is t.Union:
        if alt and type(None) in args:
            return None
        return build(args[1] if (alt and len(args) > 1) else args[0], sl, alt)
    if origin in (list, set, frozenset) or (origin is not None and origin.__name__ in ('Sequence',)):
        return [] if (alt and origin is list) else [build(args[0], sl, alt)]
    if origin is tuple:
        if len(args) == 2 and args[1] is Ellipsis:
            return (build(args[0], sl, alt), build(args[0], sl, alt))
        return tuple(build(a, sl, alt) for a in args)
    if origin is dict:
        return {'k': build(args[1], sl, alt)}
    if T is P1:
        (k, i, s) = sl.next()
        return {'a': lf(k, i, s, True)}
    (k, i, s) = sl.next()
    ci = T in (float, E1, EI) or origin is t.Literal
    return lf(k, i, s, ci)


def check(idx, v):
    T = GEN[idx]
    want, img = S.spec(T, v, PREDS)
    try:
        r = pane.from_data(v, T)
        ok = True
    except ConvertError:
        ok = False
    except Exception as e:
        if crosshair_exc(e):
            raise
        return 5
    if want is None:
        return -3
    if ok and not want:
        return 1
    if want and not ok:
        return 2
    if not ok:
        return -1
    if not S.image_matches(img, r, eqv):
        return 4
    return 0


for _i in range(len(GEN)):
    for _alt in (False, True):
        for _k in range(6):
            try:
                check(_i, build(GEN[_i], Slots([(_k, 1, 'a'), (2, 0, ''), (4, 1, 'b')]), _alt))
            except Exception:
                pass

_T = '''
@obligation(pre="0 <= k1 <= 5 and 0 <= k2 <= 5 and 0 <= k3 <= 5 and (k2 == 2 or k3 == 2)", witnesses=(), timeout=240, tiers=('thorough',))
def body_depth3_{idx}(k1: int, i1: int, s1: str, k2: int, i2: int, s2: str, k3: int, i3: int, s3: str, alt: bool) -> int:
    """seeded depth-3 type #{idx} (seed {seed}): {tyrepr}"""
    v = build(GEN[{idx}], Slots([(k1, i1, s1), (k2, i2, s2), (k3, i3, s3)]), alt)
    return check({idx}, v)
'''
for _i in range(len(GEN)):
    exec(_T.format(idx=_i, seed=SEED, tyrepr=repr(GEN[_i]).replace('"', "'")[:150]))
