"""C18 harness: custom converter precedence and reach.

Every source of a custom converter for `int` installs a converter that MARKS its result with the source's number, so the
converted value names the source that won.  Reference order (docs/using/advanced.md, property statement):
  1 the field's own converter; 2 handlers passed to the call; 3 own-class custom=; 4 inherited class custom= (only if the class
  passes none itself); 5 custom= of the enclosing dataclass; 8 the type's own converter protocol (HasConverter);
  0 built-in;  6 registered global handler (after the scalar built-ins, before the structural ones).
Verdict codes: 1 wrong winner in from_data; 2 wrong winner in into_data; 4 a mapping-form handler matched a parameterised type
or a subclass; 5 a handler answering NotImplemented did not defer; 6 registered global handler consulted in the wrong place;
10 unexpected exception.  Witness classes: 0 a custom source won, -1 built-in won.
"""
import typing as t
from typing import List, Dict, Optional, Union

import pane
from pane import PaneBase, field
from pane.convert import make_converter, register_converter_handler, ConverterHandlers
from pane.converters import Converter
from pane.errors import ParseInterrupt, ConvertError, WrongTypeError

from pane.types import ValueOrList

from hlib import obligation, crosshair_exc, eqv, cint


class MC(Converter):
    """marking converter for ints: from_data -> ('in', k, v); into_data -> ('out', k, v)"""
    def __init__(self, k, anything=False):
        self.k = k
        self.anything = anything          # markers installed for non-int types accept any value

    def expected(self, plural=False):
        return f"marked int {self.k}"

    def try_convert(self, val):
        if self.anything or (isinstance(val, int) and not isinstance(val, bool)):
            return ('in', self.k, val)
        raise ParseInterrupt()

    def collect_errors(self, val):
        if self.anything or (isinstance(val, int) and not isinstance(val, bool)):
            return None
        return WrongTypeError(self.expected(), val)

    def into_data(self, val):
        return ('out', self.k, val)

    def __hash__(self):
        return hash(('MC', self.k))

    def __eq__(self, other):
        return isinstance(other, MC) and other.k == self.k


class GL(list):
    """a list subclass: structural built-in, so a registered global handler for it wins"""


class MyInt(int):
    pass


class HC:
    """a type with its own converter protocol"""
    def __init__(self, v):
        self.v = v

    @classmethod
    def _converter(cls, *args, handlers):
        return MC(8)


def _global_handler(ty, args, *, handlers):
    if ty is GL or ty is int or ty is HC:
        return MC(6, True)
    return NotImplemented


register_converter_handler(_global_handler)


def h_call(ty, args, *, handlers):
    if ty is int and not args:
        return MC(2)
    if ty is HC:
        return MC(2)
    return NotImplemented


def h_defer(ty, args, *, handlers):
    return NotImplemented


def h_raises(ty, args, *, handlers):
    raise NotImplementedError()


CUSTOMS = {
    0: None,
    1: h_call,
    2: [h_call],
    3: {int: MC(2), HC: MC(2)},
    4: [h_defer, h_raises, h_call],                 # the first two defer to the next
    5: {list: MC(7, True), MyInt: MC(7, True)},                 # mapping form: must NOT match List[int] / int
    6: [{}.get and h_defer],                        # only deferring handlers: nothing custom applies
}

# ------------------------------------------------------------------ class families by presence bits (f, o, i, e)
FAM = {}
_SRC = '''
class Base{tag}(PaneBase{icustom}):
    b0: int = 0

class Inner{tag}(Base{tag}{ocustom}):
    v: int = {vfield}
    xs: List[int] = field(default_factory=list)
    d: Dict[str, int] = field(default_factory=dict)
    o: Optional[int] = None
    u: Union[str, int] = ''
    hc: Optional[HC] = None
    mi: Optional[MyInt] = None
    vl: ValueOrList[int] = field(default_factory=lambda: ValueOrList.from_val(0))

class Outer{tag}(PaneBase{ecustom}):
    inner: Inner{tag}
    w: int = 0
    inners: List[Inner{tag}] = field(default_factory=list)
    oinner: Optional[Inner{tag}] = None                     # the same class reached through a union ...
    uinner: Union[str, List[Inner{tag}]] = ''               # ... and through a container inside a union
'''
for f in (0, 1):
    for o in (0, 1):
        for i in (0, 1):
            for e in (0, 1):
                tag = f"{f}{o}{i}{e}"
                ns = dict(PaneBase=PaneBase, field=field, List=List, Dict=Dict, Optional=Optional, Union=Union, MC=MC, HC=HC, MyInt=MyInt, ValueOrList=ValueOrList)
                exec(_SRC.format(tag=tag, icustom=", custom={int: MC(4)}" if i else "",
                                 ocustom=", custom={int: MC(3)}" if o else "", ecustom=", custom={int: MC(5)}" if e else "",
                                 vfield="field(default=0, converter=MC(1))" if f else "0"), ns)
                FAM[(f, o, i, e)] = (ns['Inner' + tag], ns['Outer' + tag])


def family(sel):
    n = 0
    for k in FAM:
        if n == sel:
            return k, FAM[k]
        n += 1
    return None, None


def custom_of(csel):
    if csel == 0:
        return CUSTOMS[0]
    elif csel == 1:
        return CUSTOMS[1]
    elif csel == 2:
        return CUSTOMS[2]
    elif csel == 3:
        return CUSTOMS[3]
    elif csel == 4:
        return CUSTOMS[4]
    elif csel == 5:
        return CUSTOMS[5]
    else:
        return CUSTOMS[6]


HANDLERS = {k: ConverterHandlers.make(v) for (k, v) in CUSTOMS.items()}


def winner(field_conv, call, own, inherited, enclosing):
    """the reference total order"""
    if field_conv:
        return 1
    if call:
        return 2
    if own:
        return 3
    if inherited:
        return 4
    if enclosing:
        return 5
    return 0


def mark_in(k, v):
    return v if k == 0 else ('in', k, v)


def mark_out(k, v):
    return v if k == 0 else ('out', k, v)


def expected_inner(bits, call, enclosing, vals, direction):
    (f, o, i, e) = bits
    mk = mark_in if direction == 'in' else mark_out
    w_field = winner(f, call, o, i and not o, enclosing)
    w_other = winner(False, call, o, i and not o, enclosing)
    (v, x, dv, ov, uv) = vals
    return dict(v=mk(w_field, v), xs=[mk(w_other, x)], d={'k': mk(w_other, dv)}, o=mk(w_other, ov), u=mk(w_other, uv),
                vl=(ValueOrList.from_val(mk(w_other, x)) if direction == 'in' else mk(w_other, x)))


def check_family(fsel, csel, nested, vals, wv):
    bits, (Inner, Outer) = family(fsel)
    (f, o, i, e) = bits
    custom = custom_of(csel)
    call = csel in (1, 2, 3, 4)
    (v, x, dv, ov, uv) = vals
    inner_data = {'v': v, 'xs': [x], 'd': {'k': dv}, 'o': ov, 'u': uv, 'vl': x}
    # the handler set is normalised once per call-level form (HANDLERS): a mapping-form custom= makes a new closure per
    # from_data() call, i.e. a converter rebuild per path; the public entry point itself is exercised by body_entry_points
    conv = make_converter(Outer if nested else Inner, HANDLERS[csel])
    try:
        if nested:
            r = conv.convert({'inner': inner_data, 'w': wv, 'inners': [inner_data], 'oinner': inner_data, 'uinner': [inner_data]})
            got_inner, enclosing = r.inner, bool(e)
        else:
            r = conv.convert(inner_data)
            got_inner, enclosing = r, False
    except Exception as ex:
        if crosshair_exc(ex):
            raise
        return 10
    exp = expected_inner(bits, call, enclosing, vals, 'in')
    for k in exp:
        if not eqv(getattr(got_inner, k), exp[k]):
            return 1
    if nested:
        w_outer = 2 if call else (5 if e else 0)         # the outer class's own int field: call-level, else its own custom=
        if not eqv(r.w, mark_in(w_outer, wv)):
            return 1
        if len(r.inners) != 1 or r.oinner is None or not isinstance(r.uinner, list) or len(r.uinner) != 1:
            return 1
        for k in exp:
            if not eqv(getattr(r.inners[0], k), exp[k]) or not eqv(getattr(r.oinner, k), exp[k]) or not eqv(getattr(r.uinner[0], k), exp[k]):
                return 1
    # other direction: serialise a plainly built instance
    try:
        plain = Inner.make_unchecked(v=v, xs=[x], d={'k': dv}, o=ov, u=uv, vl=ValueOrList.from_val(x))
        if nested:
            d = conv.into_data(Outer.make_unchecked(inner=plain, w=wv, inners=[plain], oinner=plain, uinner=[plain]))
            d_inner = d['inner']
        else:
            d = conv.into_data(plain)
            d_inner = d
    except Exception as ex:
        if crosshair_exc(ex):
            raise
        return 10
    exp = expected_inner(bits, call, enclosing, vals, 'out')
    for k in exp:
        if not eqv(d_inner[k], exp[k]) and not (isinstance(exp[k], list) and eqv(list(d_inner[k]), exp[k])):
            return 2
    if nested:
        if not eqv(d['w'], mark_out(2 if call else (5 if e else 0), wv)):
            return 2
        if len(d['inners']) != 1 or not isinstance(d['oinner'], dict):
            return 2
        for k in exp:
            # (d['uinner'], a container of instances inside a union, is the subject of body_union_container_reach)
            for got in (d['inners'][0], d['oinner']):
                if not eqv(got[k], exp[k]) and not (isinstance(exp[k], list) and eqv(list(got[k]), exp[k])):
                    return 2
    any_custom = call or f or o or i or enclosing
    return 0 if any_custom else -1


_FAM = '''
@obligation(pre="{lo} <= fsel <= {hi} and 0 <= csel <= 6", witnesses={wit}, timeout=300)
def body_precedence_{lo}(fsel: int, csel: int, nested: bool, v: int, x: int, dv: int, ov: int, uv: int, wv: int) -> int:
    """five handler sources as presence bits (class families {lo}..{hi}) x call-level form x nesting: the highest-priority present source converts every int, at every depth, in both directions"""
    return check_family(fsel, csel, nested, (v, x, dv, ov, uv), wv)
'''
for _lo in range(0, 16, 2):
    exec(_FAM.format(lo=_lo, hi=_lo + 1, wit=(0, -1) if _lo == 0 else (0,)))


# ------------------------------------------------------------------ exact-type matching, protocol, registered global handlers

class Hold(PaneBase):
    xs: List[int] = field(default_factory=list)
    mi: Optional[MyInt] = None
    hc: Optional[HC] = None
    gl: Optional[GL] = None
    n: int = 0


@obligation(pre="0 <= csel <= 6", witnesses=(0,), timeout=240)
def body_matching(csel: int, x: int, m: int, n: int) -> int:
    """mapping-form handlers match only the exact unparameterised type; protocol vs global vs built-in order"""
    call = csel in (1, 2, 3, 4)
    m = 1 if m > 0 else -1          # (constructing an int subclass from a symbolic int realises it without end)
    try:
        data = {'xs': [x], 'hc': 5, 'gl': [1], 'n': n}
        if not call:
            data['mi'] = m
        r = make_converter(Hold, HANDLERS[csel]).convert(data)
    except Exception as ex:
        if crosshair_exc(ex):
            raise
        return 10
    # {list: ..} must not capture List[int]; {int: ..} (csel 3) does apply to the ints inside
    if not eqv(r.xs, [mark_in(2 if call else 0, x)]):
        return 4
    # MyInt is a subclass of int: {int: ..} does not claim it, {MyInt: ..} (csel 5) does.  (With a call-level handler for int
    # the subclass delegate's inner int conversion is customised too - "at every depth" - so that case is not judged.)
    if csel == 5:
        if not eqv(r.mi, ('in', 7, m)):
            return 4
    elif not call:
        if not (type(r.mi) is MyInt and r.mi == m):
            return 4
    # HC: call-level handler (2) before its own protocol (8); the registered global handler (6) never reaches it
    if not eqv(r.hc, ('in', 2 if call else 8, 5)):
        return 6
    # GL (list subclass, structural): the registered global handler wins over the built-in sequence converter
    if not (isinstance(r.gl, tuple) and len(r.gl) == 3 and r.gl[0] == 'in' and r.gl[1] == 6):
        return 6
    # int (scalar built-in) is never taken by the registered global handler
    if not eqv(r.n, mark_in(2 if call else 0, n)):
        return 6
    return 0


for _f in range(16):
    for _c in range(7):
        for _n in (False, True):
            try:
                check_family(_f, _c, _n, (1, 2, 3, 4, 5), 6)
            except Exception:
                pass
for _c in range(7):
    try:
        body_matching(_c, 1, 2, 3)
    except Exception:
        pass


class Small(PaneBase):
    n: int = 0
    xs: List[int] = field(default_factory=list)


@obligation(pre="0 <= csel <= 6", witnesses=(0, -1), timeout=240)
def body_entry_points(csel: int, n: int, x: int) -> int:
    """the public entry points from_data / into_data / Cls.from_data / instance.into_data take custom= in every form"""
    custom = custom_of(csel)
    call = csel in (1, 2, 3, 4)
    k = 2 if call else 0
    try:
        r1 = pane.from_data({'n': n, 'xs': [x]}, Small, custom=custom)
        r2 = Small.from_data({'n': n, 'xs': [x]}, custom=custom)
        r3 = pane.from_data([n, x], t.List[int], custom=custom)
        plain = Small.make_unchecked(n=n, xs=[x])
        d1 = pane.into_data(plain, Small, custom=custom)
        d2 = plain.into_data(custom=custom)
    except Exception as ex:
        if crosshair_exc(ex):
            raise
        return 10
    for r in (r1, r2):
        if not eqv(r.n, mark_in(k, n)) or not eqv(r.xs, [mark_in(k, x)]):
            return 1
    if not eqv(r3, [mark_in(k, n), mark_in(k, x)]):
        return 1
    for d in (d1, d2):
        if not eqv(d['n'], mark_out(k, n)) or not eqv(list(d['xs']), [mark_out(k, x)]):
            return 2
    return 0 if call else -1


for _c in range(7):
    try:
        body_entry_points(_c, 1, 2)
    except Exception:
        pass


class MS(Converter):
    """marking converter for strs"""
    def expected(self, plural=False):
        return "marked str"

    def try_convert(self, val):
        if isinstance(val, str):
            return ('in', 9, val)
        raise ParseInterrupt()

    def collect_errors(self, val):
        return None if isinstance(val, str) else WrongTypeError(self.expected(), val)

    def into_data(self, val):
        return ('out', 9, val)

    def __hash__(self):
        return hash('MS')

    def __eq__(self, other):
        return isinstance(other, MS)


class DBase(PaneBase, custom={str: MS()}):
    pass


class DInnerOwn(PaneBase, custom={str: MS()}):
    """own handlers answer for str only: for int they defer"""
    n: int = 0
    s: str = ''
    ns: List[int] = field(default_factory=list)


class DInnerInh(DBase):
    n: int = 0
    s: str = ''
    ns: List[int] = field(default_factory=list)


class DOuter(PaneBase, custom={int: MC(5)}):
    own: DInnerOwn
    inh: DInnerInh
    many: Dict[str, DInnerOwn] = field(default_factory=dict)


class DOuterOuter(PaneBase, custom={int: MC(4)}):
    """two levels out: the nearer enclosing class (DOuter) wins for int"""
    o: DOuter


make_converter(DOuterOuter)
make_converter(DOuter)


@obligation(pre="0 <= depth <= 1", witnesses=(0,), timeout=240)
def body_deferring_inner(depth: int, n: int, m: int) -> int:
    """an inner dataclass whose own (or inherited) handlers defer for a type falls through to the handlers of the enclosing dataclasses, nearest first"""
    inner = {'n': n, 's': 'q', 'ns': [m]}
    data = {'own': inner, 'inh': inner, 'many': {'k': inner}}
    try:
        if depth == 0:
            r = DOuter.from_data(data)
        else:
            r = DOuterOuter.from_data({'o': data}).o
    except Exception as ex:
        if crosshair_exc(ex):
            raise
        return 10
    for x in (r.own, r.inh, r.many['k']):
        if not eqv(x.n, ('in', 5, n)) or not eqv(x.ns, [('in', 5, m)]) or not eqv(x.s, ('in', 9, 'q')):
            return 1
    try:
        plain = DInnerOwn.make_unchecked(n=n, s='q', ns=[m])
        plain2 = DInnerInh.make_unchecked(n=n, s='q', ns=[m])
        d = DOuter.make_unchecked(own=plain, inh=plain2, many={'k': plain}).into_data()
    except Exception as ex:
        if crosshair_exc(ex):
            raise
        return 10
    for x in (d['own'], d['inh'], d['many']['k']):
        if not eqv(x['n'], ('out', 5, n)) or not eqv(list(x['ns']), [('out', 5, m)]) or not eqv(x['s'], ('out', 9, 'q')):
            return 2
    return 0


try:
    body_deferring_inner(0, 1, 2)
    body_deferring_inner(1, 1, 2)
except Exception:
    pass


# ------------------------------------------------------------------ one handler function used at two tiers

def h_shared(ty, args, *, handlers):
    """the SAME function object is the class-level custom= of an enclosing dataclass and a call-level custom="""
    return MC(7) if ty is int else NotImplemented


class TInner(PaneBase, custom={int: MC(3)}):
    n: int = 0


class TOuter(PaneBase, custom=h_shared):
    inner: TInner
    w: int = 0


@obligation(pre="0 <= order <= 1", witnesses=(0,), timeout=240)
def body_handler_tiers(order: int, i: int, j: int) -> int:
    """a handler set is (call-level, class-level) -- not a flat sequence: converting TOuter (h_shared as enclosing class handler) and TInner with custom=h_shared (call level) gives the same results in either order"""
    old_cache = make_converter.cache
    make_converter.cache = dict(make_converter.cache)
    try:
        for step in ((0, 1) if order == 0 else (1, 0)):
            if step == 0:
                r = TOuter.from_data({'inner': {'n': i}, 'w': j})
                # inner int: TInner's own class handler (3) beats the enclosing class's (7); outer int: its own class handler (7)
                if not eqv(r.inner.n, ('in', 3, i)) or not eqv(r.w, ('in', 7, j)):
                    return 2
            else:
                r = TInner.from_data({'n': i}, custom=h_shared)
                # call-level handler (7) beats TInner's class handler (3)
                if not eqv(r.n, ('in', 7, i)):
                    return 2
        return 0
    finally:
        make_converter.cache = old_cache


try:
    body_handler_tiers(0, 1, 2)
    body_handler_tiers(1, 1, 2)
except Exception:
    pass


class GBox(list):
    """a third-party container whose converter comes from a registered global handler that builds its member converter from
    the handlers it is GIVEN (as the numpy add-on does)"""


def _gbox_handler(ty, args, *, handlers):
    if ty is GBox:
        from pane.converters import SequenceConverter
        return SequenceConverter(GBox, int, handlers=handlers)
    return NotImplemented


register_converter_handler(_gbox_handler)


class GHolder(PaneBase, custom={int: MC(5)}):
    box: GBox = field(default_factory=GBox)
    n: int = 0


@obligation(pre="0 <= csel <= 4", witnesses=(0,), timeout=240)
def body_global_handler_reach(csel: int, x: int, n: int) -> int:
    """custom converters reach INSIDE a type whose converter is supplied by a registered global handler (call-level and enclosing-class handlers alike)"""
    call = csel in (1, 2, 3, 4)
    try:
        r = make_converter(GBox, HANDLERS[csel]).convert([x])
        h = make_converter(GHolder, HANDLERS[csel]).convert({'box': [x], 'n': n})
    except Exception as ex:
        if crosshair_exc(ex):
            raise
        return 10
    if not eqv(list(r), [mark_in(2 if call else 0, x)]):
        return 1
    k = 2 if call else 5
    if not eqv(list(h.box), [mark_in(k, x)]) or not eqv(h.n, mark_in(k, n)):
        return 1
    return 0


for _c in range(5):
    try:
        body_global_handler_reach(_c, 1, 2)
    except Exception:
        pass


# ------------------------------------------------------------------ one inherited handler at two nesting levels, a competitor in between

class FBase(PaneBase, custom={int: MC(4)}):
    pass


class FLeaf(FBase):
    n: int = 0


class FWrap(PaneBase, custom={int: MC(5)}):
    """an unrelated class in the middle with a competing handler for int"""
    leaf: FLeaf
    leaves: List[FLeaf] = field(default_factory=list)
    opt: Union[FLeaf, None, str] = None
    m: int = 0


class FRoot(FBase):
    wrap: FWrap
    k: int = 0


@obligation(pre="0 <= shape <= 2", witnesses=(0,), timeout=240)
def body_inherited_twice(shape: int, a: int, b: int, c: int, d: int) -> int:
    """FRoot and FLeaf inherit the SAME handler object; between them sits FWrap with its own: the nearest class decides at every level (4, 5, 4), in both directions"""
    try:
        data = {'wrap': {'leaf': {'n': a}, 'm': b}, 'k': c}
        if shape == 1:
            data['wrap']['leaves'] = [{'n': d}]
        elif shape == 2:
            data['wrap']['opt'] = {'n': d}
        r = FRoot.from_data(data)
    except Exception as ex:
        if crosshair_exc(ex):
            raise
        return 10
    if not eqv(r.k, ('in', 4, c)) or not eqv(r.wrap.m, ('in', 5, b)) or not eqv(r.wrap.leaf.n, ('in', 4, a)):
        return 1
    if shape == 1 and not eqv(r.wrap.leaves[0].n, ('in', 4, d)):
        return 1
    if shape == 2 and not eqv(r.wrap.opt.n, ('in', 4, d)):
        return 1
    try:
        leaf = FLeaf.make_unchecked(n=a)
        w = FWrap.make_unchecked(leaf=leaf, m=b, leaves=[FLeaf.make_unchecked(n=d)] if shape == 1 else [],
                                 opt=FLeaf.make_unchecked(n=d) if shape == 2 else None)
        out = FRoot.make_unchecked(wrap=w, k=c).into_data()
    except Exception as ex:
        if crosshair_exc(ex):
            raise
        return 10
    if not eqv(out['k'], ('out', 4, c)) or not eqv(out['wrap']['m'], ('out', 5, b)) or not eqv(out['wrap']['leaf']['n'], ('out', 4, a)):
        return 2
    if shape == 1 and not eqv(out['wrap']['leaves'][0]['n'], ('out', 4, d)):
        return 2
    if shape == 2 and not eqv(out['wrap']['opt']['n'], ('out', 4, d)):
        return 2
    return 0


for _s in range(3):
    try:
        body_inherited_twice(_s, 1, 2, 3, 4)
    except Exception:
        pass


# ------------------------------------------------------------------ serialising a container of dataclass instances that is a union member

class UInner(PaneBase):
    n: int = 0


class UOuter(PaneBase, custom={int: MC(5)}):
    direct: List[UInner] = field(default_factory=list)
    u: Union[str, List[UInner]] = ''
    o: Optional[Dict[str, UInner]] = None


@obligation(pre="0 <= which <= 1", witnesses=(0,), timeout=120)
def body_union_container_reach(which: int, i: int) -> int:
    """the enclosing class's handler converts the ints of dataclass instances held in a container that is a union member, in both directions"""
    try:
        if which == 0:
            r = UOuter.from_data({'direct': [{'n': i}], 'u': [{'n': i}]})
            if not eqv(r.direct[0].n, ('in', 5, i)) or not eqv(r.u[0].n, ('in', 5, i)):
                return 1
            d = UOuter.make_unchecked(direct=[UInner.make_unchecked(n=i)], u=[UInner.make_unchecked(n=i)]).into_data()
            if not eqv(d['direct'][0]['n'], ('out', 5, i)) or not eqv(d['u'][0]['n'], ('out', 5, i)):
                return 2
        else:
            r = UOuter.from_data({'o': {'k': {'n': i}}})
            if not eqv(r.o['k'].n, ('in', 5, i)):
                return 1
            d = UOuter.make_unchecked(o={'k': UInner.make_unchecked(n=i)}).into_data()
            if not eqv(d['o']['k']['n'], ('out', 5, i)):
                return 2
    except Exception as ex:
        if crosshair_exc(ex):
            raise
        return 10
    return 0


for _w in (0, 1):
    try:
        body_union_container_reach(_w, 1)
    except Exception:
        pass
