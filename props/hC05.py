"""C05 harness: serialise / parse round trip.

For x = from_data(d, T): into_data(x, T) consists solely of interchange values (type-exact: a bool stays a bool),
from_data(into_data(x, T), T) == x, and serialising again gives the same data (up to set ordering).
Oracle: the code against itself (DESIGN.md 3.4 (a)).
Verdict codes: 1 into_data produced a non-interchange value; 2 the serialised form is rejected on input; 4 it reads back as a
different value; 5 a second serialisation differs; 6 into_data raised; 7 an excluded field appears in the output / a
non-excluded one is missing.  Witness classes: 0 round trip done, -1 d was rejected (nothing to check).
"""
import collections
import typing as t
from typing import List, Dict, Optional, Literal

import pane
from pane import PaneBase, field, KW_ONLY
from pane.convert import make_converter
from pane.errors import ConvertError

from hlib import obligation, crosshair_exc, eqv, is_interchange, lf, lf3
from props import shared
from props.shared import CONVS, TYPES, P1

shared.export(globals())


def same_data(a, b):
    """equality of interchange data up to the order of elements that came from a set (lists compared as multisets when
    their order differs) and tuple/list"""
    if isinstance(a, (list, tuple)) and isinstance(b, (list, tuple)):
        if len(a) != len(b):
            return False
        ok = True
        for (x, y) in zip(a, b):
            if not same_data(x, y):
                ok = False
        if ok:
            return True
        rest = list(b)
        for x in a:
            hit = -1
            n = 0
            for y in rest:
                if hit < 0 and same_data(x, y):
                    hit = n
                n += 1
            if hit < 0:
                return False
            rest.pop(hit)
        return True
    if isinstance(a, dict) and isinstance(b, dict):
        if len(a) != len(b):
            return False
        for k in a:
            if k not in b or not same_data(a[k], b[k]):
                return False
        return True
    return eqv(a, b)


def roundtrip(T, v, modulo=None):
    try:
        x = pane.from_data(v, T)
    except ConvertError:
        return -1
    try:
        d1 = pane.into_data(x, T)
    except Exception as e:
        if crosshair_exc(e):
            raise
        return 6
    if not is_interchange(d1):
        return 1
    try:
        y = pane.from_data(d1, T)
    except ConvertError:
        return 2
    if modulo is not None:
        if not modulo(x, y):
            return 4
    elif not eqv(x, y):
        return 4
    try:
        d2 = pane.into_data(y, T)
    except Exception as e:
        if crosshair_exc(e):
            raise
        return 6
    if not same_data(d1, d2):
        return 5
    return 0


# types of the shared table that have a serialised form of their own (python-constructor-only converters excluded)
NAMES = [n for n in TYPES if n not in ('picky', 'pattern', 'date', 'decimal', 'fraction', 'range', 'myint', 'cond_raise', 'pi')]


def ORACLE(name, v, grp):
    return roundtrip(TYPES[name], v)


shared.warm(lambda name, s: ORACLE(name, s, 'A') if name in TYPES else None)
shared.emit(globals(), "serialise/parse round trip", names=NAMES, groups='ABCF', quick_groups='AC')
shared.emit_td(globals(), "serialise/parse round trip",
               names=[k for (k, v) in shared.TD.items() if v[0] in NAMES])


# ------------------------------------------------------------------ dataclass layout / renaming / alias / exclusion configurations

class R1(PaneBase, out_format='tuple', in_format=('tuple', 'struct')):
    a: int
    b: bool = False
    c: Optional[List[int]] = None


class R2(PaneBase, rename='camel'):
    first_field: int
    flag_b: bool = field(default=False, aliases=('fb',))
    nested_one: Optional[P1] = None


class R3(PaneBase, in_rename=('snake', 'kebab', 'pascal'), out_rename='pascal'):
    first_field: int = 0
    other_f: List[bool] = field(default_factory=list)


class R4(PaneBase, kw_only=True):
    a: int = 0
    b: float = field(default=1.0, rename='bee')
    c: str = field(default='c', in_names=('c', 'cee'), out_name='cee')


class R5(PaneBase):
    a: int = 0
    secret: int = field(default=7, exclude=True)
    b: Dict[str, bool] = field(default_factory=dict)


class R6(PaneBase, out_format='tuple', in_format=('tuple',)):
    """tuple layout with a keyword-only field"""
    a: int = 0
    _: KW_ONLY
    k: int = 0


class R7(PaneBase, out_format='tuple', in_format=('tuple', 'struct')):
    a: int = 0
    hidden: int = field(default=3, exclude=True)
    b: int = 1


RCLS = {'r1': R1, 'r2': R2, 'r3': R3, 'r4': R4, 'r5': R5, 'r6': R6, 'r7': R7}
for _c in RCLS.values():
    make_converter(_c)


def modulo_excluded(names):
    def cmp(x, y):
        pi = type(x).__pane_info__
        for f in pi.fields:
            if f.name in names:
                continue
            if not eqv(getattr(x, f.name), getattr(y, f.name)):
                return False
        return type(x) is type(y)
    return cmp


def check_output_fields(cls, x, excluded):
    d = pane.into_data(x, cls)
    n_live = len([f for f in cls.__pane_info__.fields if f.name not in excluded])
    if len(d) != n_live:
        return 7
    return 0


@obligation(pre="0 <= ka <= 5 and 0 <= kb <= 5 and 0 <= ck <= 3 and 0 <= shape <= 2", witnesses=(0, -1), timeout=200)
def body_r1(ka: int, ia: int, sa: str, kb: int, ib: int, sb: str, ck: int, shape: int) -> int:
    """R1: tuple output, both layouts on input; a bool field stays a bool"""
    a, b = lf(ka, ia, sa), lf(kb, ib, sb)
    c = None if ck == 0 else ([] if ck == 1 else ([ia] if ck == 2 else 'x'))
    v = {'a': a, 'b': b, 'c': c} if shape == 0 else ([a, b, c] if shape == 1 else [a])
    return roundtrip(R1, v)


@obligation(pre="0 <= y1 <= 3 and 0 <= y2 <= 3 and 0 <= nk <= 2 and 0 <= kb <= 5", witnesses=(0, -1), timeout=200)
def body_r2(y1: int, y2: int, i: int, kb: int, ib: int, sb: str, nk: int, hasf: bool) -> int:
    """R2: class-level rename='camel' with a field alias and a nested dataclass"""
    d = {}
    d['first_field' if y1 == 0 else ('firstField' if y1 == 1 else ('FirstField' if y1 == 2 else 'zz'))] = i
    if hasf:
        d['flag_b' if y2 == 0 else ('flagB' if y2 == 1 else ('fb' if y2 == 2 else 'flag-b'))] = lf(kb, ib, sb)
    if nk == 1:
        d['nestedOne'] = {'a': i}
    elif nk == 2:
        d['nested_one'] = None
    return roundtrip(R2, d)


@obligation(pre="0 <= y1 <= 3 and 0 <= kb <= 5 and 0 <= n <= 2", witnesses=(0, -1), timeout=200)
def body_r3(y1: int, i: int, n: int, kb: int, ib: int, sb: str) -> int:
    """R3: several input styles, pascal output"""
    d = {}
    d['first_field' if y1 == 0 else ('first-field' if y1 == 1 else ('FirstField' if y1 == 2 else 'firstField'))] = i
    if n >= 1:
        d['OtherF'] = [lf(kb, ib, sb)] if n == 1 else [True, lf(kb, ib, sb)]
    return roundtrip(R3, d)


@obligation(pre="0 <= yb <= 2 and 0 <= yc <= 2 and 0 <= kb <= 5", witnesses=(0, -1), timeout=200)
def body_r4(yb: int, yc: int, i: int, kb: int, ib: int, sb: str, hb: bool, hc: bool) -> int:
    """R4: keyword-only class, field rename and in_names/out_name"""
    d = {'a': i}
    if hb:
        d['b' if yb == 0 else ('bee' if yb == 1 else 'B')] = lf(kb, ib, sb)
    if hc:
        d['c' if yc == 0 else ('cee' if yc == 1 else 'C')] = 'q'
    return roundtrip(R4, d)


@obligation(pre="0 <= kb <= 5", witnesses=(0, -1), timeout=200)
def body_r5(i: int, hs: bool, s: int, kb: int, ib: int, sb: str, hb: bool) -> int:
    """R5: an excluded field is absent from the output and the round trip holds modulo that field"""
    d = {'a': i}
    if hs:
        d['secret'] = s
    if hb:
        d['b'] = {'k': lf(kb, ib, sb)}
    r = roundtrip(R5, d, modulo_excluded(('secret',)))
    if r == 0:
        x = R5.from_data(d)
        out = pane.into_data(x, R5)
        if 'secret' in out or 'a' not in out or 'b' not in out:
            return 7
    return r


@obligation(pre="0 <= n <= 2", witnesses=(0, -1), timeout=200)
def body_r6(n: int, i: int, j: int) -> int:
    """R6: tuple output of a class with a keyword-only field must be readable as tuple input"""
    v = [] if n == 0 else ([i] if n == 1 else [i, j])
    return roundtrip(R6, v)


@obligation(pre="0 <= n <= 3 and 0 <= shape <= 1", witnesses=(0, -1), timeout=200)
def body_r7(n: int, i: int, j: int, k: int, shape: int) -> int:
    """R7: tuple layout with an excluded field in the middle (round trip modulo the excluded field)"""
    if shape == 0:
        v = [] if n == 0 else ([i] if n == 1 else ([i, j] if n == 2 else [i, j, k]))
    else:
        v = {'a': i, 'b': k} if n >= 2 else {'a': i}
    return roundtrip(R7, v, modulo_excluded(('hidden',)))


for _b, _a in ((body_r1, (2, 1, '', 1, 1, '', 2, 0)), (body_r1, (2, 1, '', 1, 1, '', 0, 1)), (body_r2, (1, 1, 1, 1, 1, '', 1, True)),
               (body_r3, (1, 1, 1, 1, 1, '')), (body_r4, (1, 1, 1, 3, 1, '', True, True)), (body_r5, (1, True, 2, 1, 1, '', True)),
               (body_r6, (1, 1, 2)), (body_r7, (3, 1, 2, 3, 0)), (body_r7, (2, 1, 2, 3, 1))):
    try:
        _b(*_a)
    except Exception:
        pass


@obligation(pre="0 <= n <= 3 and 0 <= shape <= 1", witnesses=(0, -1), timeout=200)
def body_init_false(n: int, i: int, j: int, shape: int) -> int:
    """a class with an init=False (not excluded) field: what into_data writes must be readable"""
    if shape == 0:
        v = [i] if n <= 1 else [i, j]
    else:
        v = {'x': i} if n <= 1 else {'x': i, 'n': j}
    return roundtrip(shared.PI, v)


# ------------------------------------------------------------------ renamed field whose python name is another field's data name; dates in unions

class R8(PaneBase):
    id: int = field(rename='uid')
    id_: str = field(rename='id', default='')
    n: int = 0


make_converter(R8)


@obligation(pre="0 <= y1 <= 2 and 0 <= y2 <= 2", witnesses=(0, -1), timeout=200)
def body_r8(y1: int, y2: int, i: int, hs: bool) -> int:
    """R8: a field renamed away from its python name, and a later field renamed TO that name"""
    d = {}
    d['uid' if y1 == 0 else ('id' if y1 == 1 else 'zz')] = i
    if hs:
        k2 = 'id' if y2 == 0 else ('id_' if y2 == 1 else 'uid')
        if k2 in d:
            return -99
        d[k2] = 'sv'
    r = roundtrip(R8, d)
    if r == 0 and y1 == 0 and hs and y2 == 0:
        x = R8.from_data(d)
        if x.id != i or x.id_ != 'sv':          # 'id' is the data name of id_
            return 4
    return r


import datetime
DT_TYPES = (datetime.date, datetime.datetime, datetime.time, t.Union[datetime.date, datetime.datetime],
            t.Union[datetime.time, datetime.datetime], t.Optional[datetime.datetime], t.List[t.Union[datetime.date, datetime.datetime]],
            t.Union[datetime.datetime, datetime.date])
DT_TEXTS = ('2020-01-02', '2020-01-02T03:04:05', '03:04:05', '2020-01-02T00:00:00', '2020-01-02T03:04:05.000678', 'nope')
for _ty in DT_TYPES:
    make_converter(_ty)


@obligation(pre="0 <= ty <= 7 and 0 <= tx <= 5", witnesses=(0, -1), timeout=200)
def body_dates(ty: int, tx: int) -> int:
    """date / datetime / time alone and in unions (text from a concrete vocabulary): a datetime read through Union[date, datetime] comes back as that datetime"""
    n = 0
    T = DT_TYPES[0]
    for x in DT_TYPES:
        if n == ty:
            T = x
        n += 1
    n = 0
    txt = DT_TEXTS[0]
    for x in DT_TEXTS:
        if n == tx:
            txt = x
        n += 1
    return roundtrip(T, [txt] if ty == 6 else txt)


for _a in ((0, 0, 1, True), (1, 1, 1, True)):
    try:
        body_r8(*_a)
    except Exception:
        pass
for _ty in range(8):
    for _tx in range(6):
        try:
            body_dates(_ty, _tx)
        except Exception:
            pass


class R9(PaneBase, rename='camel'):
    """class-level rename style; a field-level rename= is used verbatim on input AND output"""
    plain_one: int = 0
    start_t: int = field(default=0, rename='start_time')
    up: int = field(default=0, rename='ID')


make_converter(R9)


@obligation(pre="0 <= y <= 5", witnesses=(0, -1), timeout=200)
def body_r9(y: int, i: int, j: int) -> int:
    """R9: class rename='camel' with fields carrying an explicit rename= that is not in that style"""
    k = 'start_time' if y == 0 else ('startTime' if y == 1 else ('start_t' if y == 2 else ('ID' if y == 3 else ('id' if y == 4 else 'plainOne'))))
    d = {k: i, 'plainOne': j} if k != 'plainOne' else {k: i}
    r = roundtrip(R9, d)
    if r == 0:
        out = pane.into_data(R9.from_data(d), R9)
        if set(out.keys()) != {'plainOne', 'start_time', 'ID'}:
            return 7
    return r


try:
    body_r9(0, 1, 2)
    body_r9(1, 1, 2)
except Exception:
    pass


U_HIST = (t.Union[t.List[int], t.List[str]], t.Union[t.Dict[str, int], t.Dict[str, str]], t.Union[t.Tuple[int, ...], t.Tuple[str, ...]])
for _u in U_HIST:
    make_converter(_u)


@obligation(pre="0 <= ui <= 2 and 0 <= first <= 1", witnesses=(0,), timeout=200)
def body_union_history(ui: int, first: int, i: int) -> int:
    """round trips of two values of the same runtime type through ONE union type, one after the other (a per-type memo of the serialising member would show)"""
    U = U_HIST[0] if ui == 0 else (U_HIST[1] if ui == 1 else U_HIST[2])
    va = [i, 2] if ui == 0 else ({'k': i} if ui == 1 else [i, 2])
    vb = ['s'] if ui == 0 else ({'k': 's'} if ui == 1 else ['s', 'u'])
    order = (va, vb) if first == 0 else (vb, va)
    for v in order:
        r = roundtrip(U, v)
        if r != 0:
            return r if r > 0 else 2
    return 0


class R10(PaneBase, out_format='tuple', in_format=('tuple', 'struct')):
    """tuple layout; a derived field (init=False, excluded) sits before another positional field of a different type"""
    x: int
    derived: str = field(init=False, exclude=True, default='d')
    label: int = 0


make_converter(R10)


@obligation(pre="0 <= n <= 2 and 0 <= shape <= 1", witnesses=(0, -1), timeout=200)
def body_r10(n: int, i: int, j: int, shape: int) -> int:
    """R10: what the tuple layout writes reads back although an init=False/excluded field sits between the positional ones"""
    if shape == 0:
        v = [] if n == 0 else ([i] if n == 1 else [i, j])
    else:
        v = {'x': i} if n <= 1 else {'x': i, 'label': j}
    return roundtrip(R10, v)


try:
    body_union_history(0, 0, 1)
    body_union_history(1, 1, 1)
    body_r10(2, 1, 2, 0)
    body_r10(2, 1, 2, 1)
except Exception:
    pass


# ------------------------------------------------------------------ a union holding a dataclass and a subclass of it

class Shape(PaneBase, rename='camel'):
    line_width: int = 1


class Circle(Shape):
    radius: float = 1.0


class Tagless(Shape):
    pass


U_SUB = (t.Union[Shape, Circle], t.List[t.Union[Shape, Circle]], t.Union[Circle, Shape], t.Dict[str, t.Union[Shape, Circle, None]],
         t.Union[Shape, Tagless])
for _u in U_SUB:
    make_converter(_u)


@obligation(pre="0 <= ui <= 4 and 0 <= which <= 1", witnesses=(0,), timeout=200)
def body_subclass_union(ui: int, which: int, i: int) -> int:
    """a value of the SUBCLASS member of Union[Base, Sub] (base listed first) is written with all its fields and reads back as the subclass"""
    U = U_SUB[0]
    n = 0
    for x in U_SUB:
        if n == ui:
            U = x
        n += 1
    inner = {'lineWidth': i, 'radius': 2.5} if which == 1 else {'lineWidth': i}
    v = inner if ui in (0, 2, 4) else ([inner] if ui == 1 else {'k': inner})
    return roundtrip(U, v)


for _ui in range(5):
    for _w in (0, 1):
        try:
            body_subclass_union(_ui, _w, 1)
        except Exception:
            pass
