"""C04 harness: only ConvertError escapes a conversion of interchange data; converter construction never fails for a
documented type and fails with TypeError/UnsupportedAnnotation for an unsupported one.

Verdict codes (which exception class escaped): 11 ParseInterrupt, 12 KeyError, 13 TypeError, 14 AttributeError,
15 ValueError, 16 OverflowError/ArithmeticError, 17 RecursionError, 18 RuntimeError, 19 anything else; 21.. type-building
clauses.  Witness classes: 0 returned, -1 raised ConvertError.
"""
import collections.abc
import enum
import re
import sys
import typing as t
from typing import Literal, Optional, List

import pane
from pane import PaneBase, field
from pane.annotations import Tagged, Condition
from pane.errors import ParseInterrupt, ConvertError, UnsupportedAnnotation
from pane.convert import make_converter

from hlib import obligation, crosshair_exc, lf, OutOfBound, cint
from props import shared
from props.shared import CONVS, TYPES, VX, VY, P1

shared.export(globals())
PC = sys.modules['pane.converters']


def classify(e):
    if crosshair_exc(e):
        raise e
    if isinstance(e, ParseInterrupt):
        return 11
    if isinstance(e, KeyError):
        return 12
    if isinstance(e, TypeError):
        return 13
    if isinstance(e, AttributeError):
        return 14
    if isinstance(e, ValueError):
        return 15
    if isinstance(e, ArithmeticError):
        return 16
    if isinstance(e, RecursionError):
        return 17
    if isinstance(e, RuntimeError):
        return 18
    return 19


def entry(name, v, use_convert):
    """Public entry points: from_data / convert for type expressions; Converter.convert for converter-only instances."""
    try:
        if name in TYPES:
            if use_convert:
                pane.convert(v, TYPES[name])
            else:
                pane.from_data(v, TYPES[name])
        else:
            CONVS[name].convert(v)
    except ConvertError:
        return -1
    except Exception as e:
        return classify(e)
    return 0


def ORACLE(name, v, grp):
    r = entry(name, v, False)
    if r > 0:
        return r
    if grp in ('A', 'T'):
        r2 = entry(name, v, True)
        if r2 > 0:
            return r2 + 100      # escaped from convert() rather than from_data()
    return r


shared.warm(lambda name, s: ORACLE(name, s, 'A'))
shared.emit(globals(), "only ConvertError escapes", groups='ABC', quick_groups='A')
shared.emit_td(globals(), "only ConvertError escapes")


# ------------------------------------------------------------------ adversarial leaves in particular positions

class MiniMap(collections.abc.Mapping):
    """A minimal Mapping that is not a dict (no .copy / .pop)."""
    def __init__(self, d):
        self._d = dict(d)

    def __getitem__(self, k):
        return self._d[k]

    def __iter__(self):
        return iter(self._d)

    def __len__(self):
        return len(self._d)


class ELit(enum.Enum):
    A = 'a'
    ONE = 1


def _hook_raise(sel):
    if sel == 1:
        raise ValueError("v")
    elif sel == 2:
        raise TypeError("t")
    elif sel == 3:
        raise KeyError("k")
    elif sel == 4:
        raise AttributeError("a")
    elif sel == 5:
        raise ZeroDivisionError("z")
    elif sel == 6:
        raise OverflowError("o")
    elif sel == 7:
        raise RecursionError("r")
    elif sel == 8:
        raise ParseInterrupt()
    elif sel == 9:
        raise ConvertError(pane.errors.WrongTypeError('x', 1))


_SEL = [0]


class PHook(PaneBase, in_format=('struct', 'tuple')):
    a: int = 0

    def __post_init__(self):
        _hook_raise(_SEL[0])


def _pred(v):
    _hook_raise(_SEL[0])
    return True


T_HOOK = {
    'phook': PHook,
    'list_phook': t.List[PHook],
    'cond': t.Annotated[int, Condition(_pred, 'pred')],
    'dict_cond': t.Dict[str, t.Annotated[int, Condition(_pred, 'pred')]],
    'union_hook': t.Union[PHook, str],
}
for _ty in T_HOOK.values():
    try:
        make_converter(_ty)
    except Exception:
        pass


def hook_value(shape, i):
    if shape == 0:
        return {'a': i}
    elif shape == 1:
        return [i]
    elif shape == 2:
        return {}
    elif shape == 3:
        return [{'a': i}]
    elif shape == 4:
        return i
    else:
        return {'k': i}


@obligation(pre="0 <= sel <= 9 and 0 <= ty <= 4 and 0 <= shape <= 5", witnesses=(0, -1), timeout=120)
def body_hooks(sel: int, ty: int, shape: int, i: int) -> int:
    """validation hooks / user predicates raising an exception of any class surface as ConvertError"""
    _SEL[0] = sel
    v = hook_value(shape, i)
    try:
        if ty == 0:
            pane.from_data(v, T_HOOK['phook'])
        elif ty == 1:
            pane.from_data(v, T_HOOK['list_phook'])
        elif ty == 2:
            pane.from_data(v, T_HOOK['cond'])
        elif ty == 3:
            pane.from_data(v, T_HOOK['dict_cond'])
        else:
            pane.from_data(v, T_HOOK['union_hook'])
    except ConvertError:
        return -1
    except Exception as e:
        return classify(e)
    finally:
        _SEL[0] = 0
    return 0


T_ADV = {
    'tag_int': TYPES['tag_int'], 'tag_ext': TYPES['tag_ext'], 'tag_adj': TYPES['tag_adj'],
    'lit': Literal['a', 1, None], 'enum': ELit, 'dict_lit': t.Dict[Literal['a', 'b'], int],
    'struct': {'a': int}, 'p1': P1, 'dict_si': t.Dict[str, int], 'list_lit': t.List[Literal['a', 1]],
    'opt_enum': Optional[ELit],
}
for _ty in T_ADV.values():
    try:
        make_converter(_ty)
    except Exception:
        pass


def adv_leaf(k, i, s):
    """adversarial leaf: unhashable or odd-kinded where a key/tag/literal is looked up"""
    if k == 0:
        return ['x']
    elif k == 1:
        return {'x': 1}
    elif k == 2:
        return cint(i)          # concretised: the leaf is hashed as a key/tag, and hash() realises symbolic ints/strs
    elif k == 3:
        return 'x' if i > 0 else ('' if i == 0 else 'q')
    elif k == 4:
        return None
    elif k == 5:
        return (1, 'x')
    elif k == 6:
        return b'x'
    elif k == 7:
        return 1.5
    else:
        return [[]]


def adv_value(shape, k, i, s, mm):
    """place the adversarial leaf A: 0 A | 1 [A] | 2 {'t': A} | 3 {'t': A, 'a': 1} | 4 {A-as-key: 1} (hashable kinds) |
    5 {'t': 'x', 'c': A} | 6 {'x': A} | 7 {'a': A} | 8 {'t': A, 'c': {}} | 9 several odd keys of mixed kinds; mm wraps the top mapping in a non-dict Mapping"""
    A = adv_leaf(k, i, s)
    if shape == 0:
        return A
    elif shape == 1:
        return [A]
    elif shape == 2:
        d = {'t': A}
    elif shape == 3:
        d = {'t': A, 'a': 1}
    elif shape == 4:
        if k == 0 or k == 1 or k == 8:
            d = {'zz': A}
        else:
            d = {A: 1}
    elif shape == 5:
        d = {'t': 'x', 'c': A}
    elif shape == 6:
        d = {'x': A}
    elif shape == 7:
        d = {'a': A}
    elif shape == 9:
        # several unexpected keys of kinds that cannot be ordered against each other (legal in YAML and Python data)
        if k == 0 or k == 1 or k == 8:
            d = {None: 1, 'q9': 2, 7: 3}
        else:
            d = {A: 1, 'q9': 2, 7: 3, None: 4}
    else:
        d = {'t': A, 'c': {}}
    return MiniMap(d) if mm else d


_ADV = '''
@obligation(pre={pre!r}, witnesses=(-1,), timeout=120)
def body_adv_{name}(shape: int, k: int, i: int, s: str, mm: bool) -> int:
    """adversarial leaves (unhashable / odd kinds as tag, key, literal, enum value; non-dict Mapping) into {name}"""
    if len(s) > 1:
        raise OutOfBound()
    v = adv_value(shape, k, i, s, mm)
    try:
        pane.from_data(v, T_ADV[{name!r}])
    except ConvertError:
        return -1
    except Exception as e:
        return classify(e)
    return 0
'''
# positions that are meaningful for each target (the others are covered by the generic domain)
_SHAPES = {
    'tag_int': (2, 3, 4), 'tag_ext': (4, 6), 'tag_adj': (4, 5, 8), 'lit': (0, 1), 'enum': (0, 1), 'opt_enum': (0, 1),
    'list_lit': (0, 1), 'dict_lit': (4, 7, 9), 'struct': (4, 7, 9), 'p1': (4, 7, 9), 'dict_si': (4, 7, 9),
}
for _n in T_ADV:
    _pre = "(" + " or ".join(f"shape == {x}" for x in _SHAPES[_n]) + ") and 0 <= k <= 8"
    if not any(x >= 2 for x in _SHAPES[_n]):
        _pre += " and not mm"
    exec(_ADV.format(name=_n, pre=_pre))


# ------------------------------------------------------------------ type building (enumerated; no symbolic input besides the selector)

class _Flag(enum.Flag):
    A = 1


class _MixedEnum(enum.Enum):
    A = 'a'
    ONE = 1


class _NotAnn:
    pass


class _StrSub(str):
    pass


SUPPORTED = [
    int, float, complex, str, bytes, bytearray, bool, type(None), t.Any,
    t.List[int], list, t.Sequence[int], t.MutableSequence[int], t.Tuple[int, str], t.Tuple[int, ...], t.Tuple[()], tuple,
    t.Set[int], t.FrozenSet[int], t.Deque[int], t.Dict[str, int], dict, t.Mapping[str, int], t.MutableMapping[str, int],
    collections.Counter, t.DefaultDict[str, int], collections.OrderedDict,
    {'a': int}, (int, str), t.Union[int, str], Optional[int], Literal['a', 1], _MixedEnum, ELit,
    t.Annotated[int, pane.annotations.Positive], TYPES['tag_int'], P1, t.List[P1],
    __import__('datetime').date, __import__('decimal').Decimal, __import__('fractions').Fraction,
    __import__('pathlib').PurePath, __import__('os').PathLike, t.Pattern[str], re.Pattern,
    shared.MyInt, _StrSub, pane.types.Range[int], pane.types.ValueOrList[int], list[int], dict[str, int], tuple[int, ...],
]
UNSUPPORTED = [
    t.ForwardRef('Nope'), 'Nope', t.Callable[[int], int], _Flag, t.Annotated[int, _NotAnn()],
    t.Annotated[int, Tagged('t')], object, t.Pattern[int], t.AbstractSet[int] if False else collections.abc.Collection,
]


@obligation(pre="0 <= i < %d" % len(SUPPORTED), witnesses=(0,), timeout=60)
def body_build_supported(i: int) -> int:
    """make_converter succeeds for every documented type (enumerated)"""
    n = 0
    for ty in SUPPORTED:
        if n == i:
            try:
                make_converter(ty)
            except Exception as e:
                if crosshair_exc(e):
                    raise
                return 21
        n += 1
    return 0


@obligation(pre="0 <= i < %d" % len(UNSUPPORTED), witnesses=(0,), timeout=60)
def body_build_unsupported(i: int) -> int:
    """make_converter fails with TypeError / UnsupportedAnnotation for unsupported types, before any data is seen"""
    n = 0
    for ty in UNSUPPORTED:
        if n == i:
            try:
                make_converter(ty)
            except (TypeError, UnsupportedAnnotation):
                return 0
            except Exception as e:
                if crosshair_exc(e):
                    raise
                return 22
            return 23
        n += 1
    return 0


# ------------------------------------------------------------------ converters reached for the first time by the diagnostic pass

class Cfg(PaneBase, in_format=('struct', 'tuple')):
    x: int = 0
    y: t.Optional[str] = field(default=None, aliases=('why',))


FRESH_TYPES = (t.Tuple[int, Cfg], {'k': int, 'p': Cfg}, t.Dict[str, Cfg], t.List[Cfg], t.Union[int, Cfg], t.Tuple[Cfg, Cfg])


def fresh_value(ti, first_bad, sk, i):
    """values whose FIRST member fails so that a later member's converter is reached by collect_errors before any try_convert"""
    bad = 'oops' if sk == 0 else ([1] if sk == 1 else None)
    cfg = {'x': i} if sk != 2 else {'x': 'bad', 'zz': 1}
    a = bad if first_bad else 1
    if ti == 0:
        return [a, cfg]
    elif ti == 1:
        return {'k': a, 'p': cfg}
    elif ti == 2:
        return {'a': {'x': bad}, 'b': cfg}
    elif ti == 3:
        return [{'x': bad}, cfg]
    elif ti == 4:
        return cfg if not first_bad else {'x': bad}
    else:
        return [{'x': bad} if first_bad else cfg, cfg]


@obligation(pre="0 <= ti <= 5 and 0 <= sk <= 2", witnesses=(0, -1), timeout=240)
def body_fresh_converters(ti: int, first_bad: bool, sk: int, i: int) -> int:
    """a converter built for this very call (mapping-form custom= makes a fresh handler set, hence fresh converters) may be reached first by the diagnostic pass: still only ConvertError"""
    n = 0
    ty = FRESH_TYPES[0]
    for x in FRESH_TYPES:
        if n == ti:
            ty = x
        n += 1
    v = fresh_value(ti, first_bad, sk, i)
    try:
        pane.from_data(v, ty, custom={})
    except ConvertError:
        return -1
    except Exception as e:
        return classify(e)
    return 0


for _ti in range(6):
    for _fb in (False, True):
        for _sk in range(3):
            try:
                body_fresh_converters(_ti, _fb, _sk, 1)
            except Exception:
                pass


# ------------------------------------------------------------------ converted keys / elements / enum values that are not hashable

class ETup(enum.Enum):
    A = (1, 2)
    B = (3, (4, 5))


T_UNH = (ETup, t.Dict[t.List[int], int], t.Dict[t.Tuple[int, t.List[int]], int], t.Dict[t.Set[int], int],
         t.Set[t.Tuple[int, t.List[int]]], t.FrozenSet[t.List[int]], t.Dict[t.Tuple[int, ...], int], t.List[ETup],
         t.Dict[ETup, int], t.Union[ETup, None], t.Dict[t.Union[int, t.List[int]], int])
for _ty in T_UNH:
    try:
        make_converter(_ty)
    except Exception:
        pass


def unh_value(vk, i):
    """interchange values whose image under the member types above contains a list / set / dict where a hash is needed"""
    if vk == 0:
        return [1, 2]
    elif vk == 1:
        return [3, [4, 5]]
    elif vk == 2:
        return [i, {}]
    elif vk == 3:
        return {(1, 2): i}
    elif vk == 4:
        return {(i, (2, 3)): 5}
    elif vk == 5:
        return [[i, [2]]]
    elif vk == 6:
        return {(): 1, (i,): 2}
    elif vk == 7:
        return [[1, 2], [3, [4, 5]]]
    elif vk == 8:
        return {(3, (4, 5)): i}
    else:
        return [[i]]


@obligation(pre="0 <= ti < %d and 0 <= vk <= 9" % len(T_UNH), witnesses=(0, -1), timeout=200)
def body_unhashable_image(ti: int, vk: int, i: int) -> int:
    """a key / set element / enum value whose converted image is unhashable (a list inside a tuple, a set, a dict) is a rejection, not a raw TypeError"""
    n = 0
    ty = T_UNH[0]
    for x in T_UNH:
        if n == ti:
            ty = x
        n += 1
    v = unh_value(vk, cint(i))
    try:
        pane.from_data(v, ty)
    except ConvertError:
        return -1
    except Exception as e:
        return classify(e)
    return 0


for _ti in range(len(T_UNH)):
    for _vk in range(10):
        try:
            body_unhashable_image(_ti, _vk, 1)
        except Exception:
            pass


# ------------------------------------------------------------------ keys that collide AFTER conversion

import decimal as _decimal
import fractions as _fractions
import pathlib as _pathlib

T_COLL = (t.Dict[_decimal.Decimal, int], t.Dict[_fractions.Fraction, int], t.Dict[_pathlib.PurePosixPath, int], t.Mapping[_fractions.Fraction, str],
          t.List[t.Dict[_decimal.Decimal, int]], t.Dict[str, t.Dict[_fractions.Fraction, int]], t.Optional[t.Dict[_decimal.Decimal, int]])
for _ty in T_COLL:
    try:
        make_converter(_ty)
    except Exception:
        pass


def coll_value(ti, vk, i):
    """mappings whose keys are different texts of the same number / path: every key and value is valid on its own"""
    if ti == 0 or ti == 4 or ti == 6:
        d = {'1.0': i, '1.00': 2} if vk == 0 else ({'1.0': i} if vk == 1 else {'1.0': i, 'x': 2})
    elif ti == 1 or ti == 3 or ti == 5:
        d = {'1/2': i, '2/4': 2} if vk == 0 else ({'1/2': i} if vk == 1 else {'1/2': i, '1/0': 2})
        if ti == 3:
            d = {k: 's' for k in d}
    else:
        d = {'a/b': i, 'a//b': 2} if vk == 0 else ({'a/b': i} if vk == 1 else {'a/b': i, 7: 2})
    if ti == 4:
        return [d]
    if ti == 5:
        return {'k': d}
    return d


@obligation(pre="0 <= ti <= 6 and 0 <= vk <= 2", witnesses=(0, -1), timeout=200)
def body_colliding_keys(ti: int, vk: int, i: int) -> int:
    """two distinct keys that convert to the SAME key (texts of one Decimal / Fraction / path): accepted or rejected, but nothing other than ConvertError escapes"""
    n = 0
    ty = T_COLL[0]
    sel = 0
    for x in T_COLL:
        if n == ti:
            ty = x
            sel = n
        n += 1
    v = coll_value(sel, 0 if vk == 0 else (1 if vk == 1 else 2), cint(i))
    res = 0
    for use_convert in (False, True):
        try:
            if use_convert:
                pane.convert(v, ty)
            else:
                pane.from_data(v, ty)
        except ConvertError:
            res = -1
        except Exception as e:
            return classify(e)
    return res


for _ti in range(7):
    for _vk in range(3):
        try:
            body_colliding_keys(_ti, _vk, 1)
        except Exception:
            pass
