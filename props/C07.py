"""C07 -- error trees localise failures compositionally."""
import os

HERE = os.path.dirname(os.path.abspath(__file__))


def harness_files(tier, seed):
    return [os.path.join(HERE, 'hC07.py')]


META = dict(
    bounds="rejected values among the generic depth-1 and type-directed near-valid values of props/shared.py (up to 3 elements / keys, "
           "depth 2; symbolic kinds and leaves)",
    configs="34 types: every composite converter (struct, fixed and variadic tuples, sequences, mappings, n-d nesting, unions, "
            "conditions, enums, dataclasses in struct and tuple layout incl. aliases/duplicates/allow_extra/hooks/init=False, nested "
            "dataclasses) over element types int, float, str, Optional[str], List[int], Positive int, dataclasses",
    stubs=[],
    outside=["the `expected` label of composite nodes (wording, not structure)", "tagged unions (their tree is the variant's: C12)"],
    assumptions=["oracle: the element converters' own collect_errors, built separately; required/known keys read off the type"],
)
