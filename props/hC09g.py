"""C09, thorough tier: no entry point mutates its input, on the depth-3 types drawn with VERIF_SEED.
Verdict codes: 1 changed by the fast pass; 2 by the diagnostic pass; 4 by from_data; 5 by convert."""
import pane
from pane.convert import make_converter

from hlib import obligation, crosshair_exc, eqv, snapshot
from props import gen_types as G

GEN = G.gen_types(G.SEED)
CONV = [make_converter(T) for T in GEN]


def _quiet(f, *a):
    try:
        return True, f(*a)
    except Exception as e:
        if crosshair_exc(e):
            raise
        return False, None


def check_depth3(idx, v):
    s0 = snapshot(v)
    ok, _x = _quiet(CONV[idx].try_convert, v)
    if not eqv(snapshot(v), s0):
        return 1
    _quiet(CONV[idx].collect_errors, v)
    if not eqv(snapshot(v), s0):
        return 2
    _quiet(pane.from_data, v, GEN[idx])
    if not eqv(snapshot(v), s0):
        return 4
    _quiet(pane.convert, v, GEN[idx])
    if not eqv(snapshot(v), s0):
        return 5
    return 0 if ok else -1


G.warm_depth3(globals(), GEN)
G.emit_depth3(globals(), "input not mutated", GEN, timeout=600)
