"""C03 -- fast path and diagnostic path always agree."""
import os

HERE = os.path.dirname(os.path.abspath(__file__))


def harness_files(tier, seed):
    files = [os.path.join(HERE, 'hC03.py')]
    if tier == 'thorough':
        # the 24 depth-3 type expressions drawn from the grammar with VERIF_SEED (props/gen_types.py), under this property's oracle
        os.environ['VERIF_SEED'] = str(seed)
        files.append(os.path.join(HERE, 'hC03g.py'))
    return files


META = dict(
    bounds="generic depth-1 interchange values: leaf | list len<=2 | dict <=2 keys (from a per-converter vocabulary of "
           "known and foreign keys) | 2-tuple | [[A],B] | {k:[A]}; leaves None/bool/int/float/str(len<=2)/bytes; ints and floats "
           "unbounded (nan/inf included)",
    configs="converter instances enumerated (see per_obligation): all 17 converter classes, 3 tag layouts, both dataclass layouts + thorough tier: 24 type expressions of nesting depth 3 drawn from the grammar with VERIF_SEED (props/gen_types.py), type-directed values with 3 symbolic leaf slots, under this property's oracle",
    stubs=["NestedSequenceConverter constructor: python stand-in for numpy.array"],
    outside=["numpy C boundary", "datetime/regex text beyond 1 symbolic character"],
    assumptions=["oracle: the two passes of the same converter object (no external spec)"],
)
