"""C17 -- inheritance and generics resolve fields, order and types correctly."""
import os

HERE = os.path.dirname(os.path.abspath(__file__))


def harness_files(tier, seed):
    return [os.path.join(HERE, 'hC17.py')]


META = dict(
    bounds="values: a symbolic leaf (6 kinds) placed by the solver in any field of a generic instantiation, directly or inside its "
           "List / Dict / Optional, through from_data and through the constructor; symbolic ints for ordering/option probes",
    configs="5 plain hierarchies (16 classes: override in place, kw_only option inherited/overridden over 4 levels, KW_ONLY sentinel "
            "with redeclaration, non-pane mixin first/last, diamond) checked against a reference merge; 16 generic instantiations (incl. permuted re-use of type variable names, partial binding, a generic dataclass as a field type of another) "
            "(depth <= 3: bound, forwarded, re-parameterised two-parameter, field-less forwarding, nested forwarding); option "
            "inheritance over 3 levels + mixin (layouts, rename, allow_extra, frozen, custom)",
    stubs=[],
    outside=["hierarchies are enumerated programs, not generated from a grammar"],
    assumptions=["oracle: reference merge (props/hC17.py ref_merge) + expected substituted types per instantiation"],
)
