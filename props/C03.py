"""C03 -- fast path and diagnostic path always agree."""
import os

HERE = os.path.dirname(os.path.abspath(__file__))


def harness_files(tier, seed):
    return [os.path.join(HERE, 'hC03.py')]


META = dict(
    bounds="generic depth-1 interchange values: leaf | list len<=2 | dict <=2 keys (from a per-converter vocabulary of "
           "known and foreign keys) | 2-tuple | [[A],B] | {k:[A]}; leaves None/bool/int/float/str(len<=2)/bytes; ints and floats "
           "unbounded (nan/inf included)",
    configs="converter instances enumerated (see per_obligation): all 17 converter classes, 3 tag layouts, both dataclass layouts",
    stubs=["NestedSequenceConverter constructor: python stand-in for numpy.array"],
    outside=["numpy C boundary", "datetime/regex text beyond 1 symbolic character"],
    assumptions=["oracle: the two passes of the same converter object (no external spec)"],
)
