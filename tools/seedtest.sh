#!/bin/bash
# tools/seedtest.sh <seed dir> <check id> [<check id> ...]
# Applies a seeded change to /repo, confirms tests still pass and the demo fails, runs the given quick checks, reverts.
# Always leaves /repo clean.
S="$1"; shift
cd /repo || exit 9
if ! git diff --quiet; then echo "REPO NOT CLEAN"; exit 9; fi
if ! git apply --check "$S/patch.diff" 2>/dev/null; then
  if git apply --check -3 "$S/patch.diff" 2>/dev/null; then echo "(3-way needed)"; fi
  echo "PATCH DOES NOT APPLY: $S"; exit 8
fi
trap 'git -C /repo checkout -- . ; git -C /repo clean -fdq -- pane' EXIT
/venv/bin/python "$S/demo.py" >/dev/null 2>&1; echo "demo on clean tree: exit $?"
git apply "$S/patch.diff"
T=$(/venv/bin/python -m pytest -q -p no:cacheprovider 2>&1 | tail -1); echo "tests with seed: $T"
/venv/bin/python "$S/demo.py" >/dev/null 2>&1; echo "demo with seed: exit $?"
for c in "$@"; do
  out=$(cd /verif && ./check $c --tier quick --no-selftest --no-evidence --replay-dir /verif/build/seedreplay 2>&1)
  rc=$?
  echo "check $c with seed: exit $rc"
  echo "$out" | grep -E "^(VIOLATION|counterexample|INCONCLUSIVE|SPURIOUS|HARNESS|SUMMARY)" | head -8
done
