"""C17 harness: inheritance and generics resolve fields, order and types correctly.

Hierarchies are small programs: each is written once as a DESCRIPTOR (levels, fields, options) from which the class
statements are generated and executed, and on which a 25-line reference merge (MRO order, override in place, keyword-only
fields moved behind) computes the expected field order.  Generic instantiations carry, per field, the expected substituted
type as a predicate, and conversion is run on symbolic values to see that the substituted type is ENFORCED.
Verdict codes: 1 field order / signature / repr / tuple layout differs from the reference merge; 2 a type variable was not
substituted in a field type; 4 conversion does not enforce the substituted type (accepted a non-member or rejected a member);
5 an inherited class option is not effective in a subclass; 6 an overridden option leaked / was not applied; 10 unexpected
exception.  Witness classes: 0 accepted, -1 rejected.
"""
import inspect
import typing as t
from typing import List, Dict, Optional, Generic, TypeVar

import pane
from pane import PaneBase, field, KW_ONLY
from pane.convert import make_converter
from pane.errors import ConvertError

from hlib import obligation, crosshair_exc, eqv, lf

T = TypeVar('T')
U = TypeVar('U')
V = TypeVar('V')
NS = dict(PaneBase=PaneBase, field=field, KW_ONLY=KW_ONLY, List=List, Dict=Dict, Optional=Optional, Generic=Generic,
          T=T, U=U, V=V, t=t)

# ------------------------------------------------------------------ plain hierarchies: (class name, bases, options, body lines, declared fields)
# declared field = (name, kw_only_by_field_or_sentinel)
HIER = {
    'override': [
        ('A', 'PaneBase', '', ['x: int = 1', 'y: float = 1.0'], [('x', False), ('y', False)]),
        ('B', 'A', '', ["z: str = 'z'"], [('z', False)]),
        ('C', 'B', '', ['y: int = 5', 'w: int = field(default=0, kw_only=True)', 'v: int = 2'], [('y', False), ('w', True), ('v', False)]),
    ],
    'kwonly_option': [
        ('A', 'PaneBase', 'kw_only=True', ['a: int = 0'], [('a', None)]),
        ('B', 'A', '', ['b: int = 1'], [('b', None)]),                   # inherits kw_only=True
        ('C', 'B', 'kw_only=False', ['c: int = 2'], [('c', None)]),       # overrides: c is positional
        ('D', 'C', '', ['d: int = 3'], [('d', None)]),                   # inherits kw_only=False from C
    ],
    'sentinel': [
        ('A', 'PaneBase', '', ['p: int = 0', '_: KW_ONLY', 'q: int = 0'], [('p', False), ('q', True)]),
        ('B', 'A', '', ['r: int = 1', 'q: int = 7'], [('r', False), ('q', False)]),      # q redeclared: stays in place, now positional
    ],
    'mixin': [
        ('A', 'PaneBase', '', ['x: int = 1'], [('x', False)]),
        ('B', 'Mix, A', '', ['y: int = 2'], [('y', False)]),
        ('C', 'A, Mix', '', ['y: int = 2', 'x: int = 9'], [('y', False), ('x', False)]),
    ],
    'kwmid': [
        ('A', 'PaneBase', "in_format=('tuple', 'struct'), out_format='tuple'",
         ['x: int = 1', "tag: str = field(default='t', kw_only=True)", 'y: int = 0'], [('x', False), ('tag', True), ('y', False)]),
        ('B', 'A', '', ['pass'], []),                                     # a leaf that declares no field
        ('C', 'A', "out_format='struct'", ['pass'], []),                  # ... and only changes an option
        ('D', 'B', '', ['z: int = 3'], [('z', False)]),
    ],
    'diamond': [
        ('A', 'PaneBase', '', ['x: int = 1'], [('x', False)]),
        ('B', 'A', '', ['y: int = 2'], [('y', False)]),
        ('C', 'A', '', ['z: int = 3'], [('z', False)]),
        ('D', 'B, C', '', ['w: int = 4'], [('w', False)]),
    ],
}


class Mix:
    def helper(self):
        return 1


NS['Mix'] = Mix
CLS = {}
for (_h, _levels) in HIER.items():
    for (_name, _bases, _opts, _body, _decl) in _levels:
        _full = f"{_h}_{_name}"
        _b = ', '.join((f"{_h}_{x.strip()}" if x.strip() not in ('PaneBase', 'Mix') else x.strip()) for x in _bases.split(','))
        _src = f"class {_full}({_b}{', ' + _opts if _opts else ''}):\n" + ''.join(f"    {l}\n" for l in _body)
        exec(_src, NS)
        CLS[(_h, _name)] = NS[_full]


def ref_merge(h, name):
    """reference: fields of the bases in MRO order (reversed), a redeclared field overriding IN PLACE, then own fields;
    keyword-only fields moved behind the positional ones (stable).  kw-only status: by field / sentinel, or the class option
    kw_only inherited from the nearest level that sets it."""
    levels = {n: (bases, opts, decl) for (n, bases, opts, body, decl) in HIER[h]}
    cls = CLS[(h, name)]
    order = []          # list of [fname, kw_only]
    for base in reversed(cls.__mro__[1:]):
        for (n, (bases, opts, decl)) in levels.items():
            if CLS[(h, n)] is base:
                _apply(h, n, levels, order)
    _apply(h, name, levels, order)
    pos = [f for f in order if not f[1]]
    kw = [f for f in order if f[1]]
    return [f[0] for f in pos], [f[0] for f in kw]


def _class_kw_only(h, n, levels):
    c = CLS[(h, n)]
    for k in c.__mro__:
        for (m, (bases, opts, decl)) in levels.items():
            if CLS[(h, m)] is k and 'kw_only=' in opts:
                return 'kw_only=True' in opts
    return False


def _apply(h, n, levels, order):
    (bases, opts, decl) = levels[n]
    ck = _class_kw_only(h, n, levels)
    for (fname, fkw) in decl:
        kw = ck if fkw is None else (fkw or ck)
        for f in order:
            if f[0] == fname:
                f[1] = kw
                break
        else:
            order.append([fname, kw])


def sel_class(sel):
    n = 0
    for k in CLS:
        if n == sel:
            return k
        n += 1
    return None


@obligation(pre="0 <= sel < %d" % len(CLS), witnesses=(0,), timeout=240)
def body_field_order(sel: int, a: int, b: int) -> int:
    """field order = reference merge; constructor signature, positional binding, tuple layout and repr follow it"""
    (h, name) = sel_class(sel)
    cls = CLS[(h, name)]
    pos, kw = ref_merge(h, name)
    names = [f.name for f in cls.__pane_info__.fields]
    if names != pos + kw:
        return 1
    params = list(inspect.signature(cls).parameters.values())
    if [p.name for p in params] != pos + kw:
        return 1
    for p in params:
        want = inspect.Parameter.KEYWORD_ONLY if p.name in kw else inspect.Parameter.POSITIONAL_OR_KEYWORD
        if p.kind != want:
            return 1
    # positional binding follows the order
    if len(pos) >= 2:
        x = cls(a, b)
        if getattr(x, pos[0]) != a or getattr(x, pos[1]) != b:
            return 1
    else:
        x = cls(a) if pos else cls()
    if h == 'kwmid':
        # the tuple layout binds positions to the positional fields in this order, and writes positional then keyword-only fields
        try:
            y = cls.from_data((a, b))
        except Exception as e:
            if crosshair_exc(e):
                raise
            return 1
        if getattr(y, pos[0]) != a or getattr(y, pos[1]) != b or y.tag != 't':
            return 1
        d = y.into_data()
        if name != 'C':
            if not isinstance(d, tuple) or len(d) != len(pos) + len(kw):
                return 1
            n = 0
            for fn in pos + kw:
                if not eqv(d[n], getattr(y, fn)):
                    return 1
                n += 1
        elif list(d.keys()) != pos + kw:
            return 1
    # repr follows the order
    r = repr(cls())
    last = -1
    for n in pos + kw:
        i = r.find(n + '=')
        if i <= last:
            return 1
        last = i
    return 0


# ------------------------------------------------------------------ generics: substitution through inheritance, enforced by conversion

_GEN_SRC = '''
class G(PaneBase, Generic[T]):
    x: T
    ys: List[T] = field(default_factory=list)

class H(G[U]):
    z: Optional[U] = None

class HI(G[int]):
    z: float = 0.0

class P(PaneBase, Generic[T, U]):
    a: T
    b: U

class Q(P[int, V], Generic[V]):
    c: Optional[V] = None

class FL(G[U], out_format='tuple', in_format=('tuple', 'struct')):
    """forwards its parameter without declaring any field"""

class FL2(FL[V]):
    w: Optional[V] = None

class HH(H[V]):
    k: Dict[str, V] = field(default_factory=dict)

class Box(PaneBase, Generic[T]):
    item: T

class Crate(PaneBase, Generic[T]):
    inner: Box[T]
    many: List[Box[T]] = field(default_factory=list)

class Wrap(PaneBase, Generic[T]):
    inner: T

class Deep2(PaneBase, Generic[T]):
    nested: Box[Wrap[T]]                      # T sits two parameterised dataclasses deep
    both: Dict[str, Box[Wrap[T]]] = field(default_factory=dict)
    comp: Optional[Box[List[T]]] = None       # T inside a compound argument of a parameterised dataclass

class Deep2Fwd(Deep2[U]):
    pass

class Swapped(P[U, T]):
    """re-uses the base's own type variable names, permuted"""

class Half(P[U, int]):
    pass

class Deep(H[V]):
    pass

class Reord(P[U, T], Generic[T, U]):
    """forwards its parameters permuted AND declares their order: Reord[X, Y] binds T=X, U=Y, so a: Y, b: X"""

class M1(PaneBase, Generic[T]):
    m1: T

class M2(PaneBase, Generic[U]):
    m2: U

class MB(M1[V], M2[U]):
    """two generic bases, each forwarding one parameter: parameters in order of appearance (V, U)"""

class MBrev(M1[V], M2[U], Generic[U, V]):
    """... with the order declared the other way round"""

class KWG(PaneBase, Generic[T], in_format=('tuple', 'struct'), out_format='tuple'):
    x: T
    tag: str = field(default='t', kw_only=True)
    y: int = 0

class KWGsub(KWG[U], out_format='struct'):
    pass

class Deeper(Deep[T]):
    m: Optional[T] = None
'''
exec(_GEN_SRC, NS)
G, H, HI, P, Q, FL, FL2, HH, Box, Crate, Swapped, Half, Deeper, Deep2, Deep2Fwd, KWG, KWGsub = (NS[k] for k in ('G', 'H', 'HI', 'P', 'Q', 'FL', 'FL2', 'HH', 'Box', 'Crate', 'Swapped', 'Half', 'Deeper', 'Deep2', 'Deep2Fwd', 'KWG', 'KWGsub'))

# instantiation -> {field: kind}; kinds: 'int', 'str', 'float', 'list_int', 'list_str', 'opt_int', 'opt_str', 'dict_str'
INST_SPEC = {
    'G_int': (lambda: G[int], {'x': 'int', 'ys': 'list_int'}),
    'G_str': (lambda: G[str], {'x': 'str', 'ys': 'list_str'}),
    'H_str': (lambda: H[str], {'x': 'str', 'ys': 'list_str', 'z': 'opt_str'}),
    'H_int': (lambda: H[int], {'x': 'int', 'ys': 'list_int', 'z': 'opt_int'}),
    'HI': (lambda: HI, {'x': 'int', 'ys': 'list_int', 'z': 'float'}),
    'P_int_str': (lambda: P[int, str], {'a': 'int', 'b': 'str'}),
    'P_str_int': (lambda: P[str, int], {'a': 'str', 'b': 'int'}),
    'Q_str': (lambda: Q[str], {'a': 'int', 'b': 'str', 'c': 'opt_str'}),
    'Q_int': (lambda: Q[int], {'a': 'int', 'b': 'int', 'c': 'opt_int'}),
    'FL_int': (lambda: FL[int], {'x': 'int', 'ys': 'list_int'}),
    'FL2_str': (lambda: FL2[str], {'x': 'str', 'ys': 'list_str', 'w': 'opt_str'}),
    'HH_int': (lambda: HH[int], {'x': 'int', 'ys': 'list_int', 'z': 'opt_int', 'k': 'dict_int'}),
    'Box_int': (lambda: Box[int], {'item': 'int'}),
    'Swapped_int_str': (lambda: Swapped[int, str], {'a': 'int', 'b': 'str'}),
    'Half_str': (lambda: Half[str], {'a': 'str', 'b': 'int'}),
    'Deeper_str': (lambda: Deeper[str], {'x': 'str', 'ys': 'list_str', 'z': 'opt_str', 'm': 'opt_str'}),
    'Reord_int_str': (lambda: NS['Reord'][int, str], {'a': 'str', 'b': 'int'}),
    'MB_int_str': (lambda: NS['MB'][int, str], {'m2': 'str', 'm1': 'int'}),
    'MBrev_int_str': (lambda: NS['MBrev'][int, str], {'m2': 'int', 'm1': 'str'}),
    'KWG_int': (lambda: KWG[int], {'x': 'int', 'y': 'int', 'tag': 'str'}),
    'KWGsub_str': (lambda: KWGsub[str], {'x': 'str', 'y': 'int', 'tag': 'str'}),
}
INST = {}
for (_k, (_mk, _kinds)) in INST_SPEC.items():
    try:
        INST[_k] = (_mk(), _kinds)
    except Exception as _e:          # subscription itself fails: reported by the obligation as "not substituted" (code 2)
        INST[_k] = (None, _kinds)
for (_k, (_c, _f)) in INST.items():
    try:
        if _c is not None:
            make_converter(_c)
    except Exception:
        pass

EXPECT_TYPE = {'int': int, 'str': str, 'float': float, 'list_int': List[int], 'list_str': List[str], 'opt_int': Optional[int],
               'opt_str': Optional[str], 'dict_int': Dict[str, int]}


def type_eq(a, b):
    """structural equality of type expressions: typing.List[int] and list[int] denote the same type"""
    oa, ob = t.get_origin(a), t.get_origin(b)
    if oa is None and ob is None:
        return a is b or a == b
    if oa is not ob:
        return False
    aa, ab = t.get_args(a), t.get_args(b)
    if len(aa) != len(ab):
        return False
    for (x, y) in zip(aa, ab):
        if not type_eq(x, y):
            return False
    return True


def member(kind, v):
    """reference membership for the few field kinds used here"""
    isint = isinstance(v, int)
    if kind == 'int':
        return isint
    elif kind == 'str':
        return isinstance(v, str)
    elif kind == 'float':
        return isint or isinstance(v, float)
    elif kind == 'opt_int':
        return v is None or isint
    elif kind == 'opt_str':
        return v is None or isinstance(v, str)
    return None


def inst_of(sel):
    n = 0
    for k in INST:
        if n == sel:
            return k
        n += 1
    return None


def valid_value(kind):
    if kind == 'int':
        return 1
    elif kind == 'str':
        return 's'
    elif kind == 'float':
        return 1.5
    elif kind in ('list_int', 'list_str'):
        return []
    elif kind == 'dict_int':
        return {}
    return None


@obligation(pre="0 <= sel < %d and 0 <= fsel <= 3 and 0 <= k <= 5 and 0 <= wrap <= 1" % len(INST), witnesses=(0, -1), timeout=300)
def body_generic_enforced(sel: int, fsel: int, k: int, i: int, s: str, wrap: int) -> int:
    """every field type has its type variables substituted (structurally) and conversion enforces the substituted type"""
    name = inst_of(sel)
    (cls, kinds) = INST[name]
    if cls is None:
        return 2
    fields = cls.__pane_info__.fields
    for f in fields:
        if f.name in kinds and not type_eq(f.type, EXPECT_TYPE[kinds[f.name]]):
            return 2
    if [f.name for f in fields] != list(kinds):
        return 1            # (the tables above list the fields in the expected order: positional, then keyword-only)
    # put a symbolic value into the fsel-th field (directly, or inside its list / dict), valid values elsewhere
    n = 0
    target = None
    for fname in kinds:
        if n == fsel:
            target = fname
        n += 1
    if target is None:
        return -99
    kind = kinds[target]
    v = lf(k, i, s)
    if kind in ('list_int', 'list_str'):
        val, want = [v], member(kind[5:], v)
    elif kind == 'dict_int':
        val, want = {'q': v}, member('int', v)
    else:
        val, want = v, member(kind, v)
    data = {fn: valid_value(kd) for (fn, kd) in kinds.items()}
    data[target] = val
    try:
        if wrap == 0:
            cls.from_data(data)
        else:
            cls(**data)
        ok = True
    except ConvertError:
        ok = False
    except Exception as e:
        if crosshair_exc(e):
            raise
        return 10
    if ok != want:
        return 4
    return 0 if ok else -1


# ------------------------------------------------------------------ class options are inherited unless overridden

from pane.converters import Converter
from pane.errors import ParseInterrupt, WrongTypeError


class Mark(Converter):
    def expected(self, plural=False):
        return 'marked int'

    def try_convert(self, val):
        if isinstance(val, int):
            return ('m', val)
        raise ParseInterrupt()

    def collect_errors(self, val):
        return None if isinstance(val, int) else WrongTypeError('marked int', val)

    def into_data(self, val):
        return ('o', val)


NS['Mark'] = Mark
_OPT_SRC = '''
class OBase(PaneBase, in_format=('tuple', 'struct'), out_format='tuple', rename='camel', allow_extra=True, frozen=False,
            custom={int: Mark()}):
    foo_bar: int = 0

class OSub(OBase):
    baz_qux: int = 1

class OSubSub(OSub, allow_extra=False, out_format='struct'):
    last_one: int = 2

class OMix(Mix, OSub):
    more_f: int = 3
'''
exec(_OPT_SRC, NS)
OBase, OSub, OSubSub, OMix = NS['OBase'], NS['OSub'], NS['OSubSub'], NS['OMix']
for _c in (OBase, OSub, OSubSub, OMix):
    make_converter(_c)


@obligation(pre="0 <= which <= 2 and 0 <= probe <= 5", witnesses=(0, -1), timeout=240)
def body_options_inherited(which: int, probe: int, i: int, j: int) -> int:
    """layouts, renaming, allow_extra, frozen and custom handlers set on a base are effective in subclasses unless overridden"""
    cls = OSub if which == 0 else (OSubSub if which == 1 else OMix)
    over = which == 1                    # OSubSub overrides allow_extra=False, out_format='struct'
    try:
        if probe == 0:      # tuple layout inherited
            x = cls.from_data([i, j])
            if not eqv(x.foo_bar, ('m', i)) or not eqv(x.baz_qux, ('m', j)):
                return 5
        elif probe == 1:    # renaming inherited (camel keys accepted)
            x = cls.from_data({'fooBar': i, 'bazQux': j})
            if not eqv(x.foo_bar, ('m', i)) or not eqv(x.baz_qux, ('m', j)):
                return 5
        elif probe == 2:    # allow_extra inherited / overridden
            try:
                cls.from_data({'fooBar': i, 'unknownKey': j})
                accepted = True
            except ConvertError:
                accepted = False
            if accepted == over:
                return 6 if over else 5
            return 0 if accepted else -1
        elif probe == 3:    # out_format / renaming / custom on output
            x = cls.make_unchecked(i, j)
            d = x.into_data()
            if over:
                if not isinstance(d, dict) or not eqv(d.get('fooBar'), ('o', i)) or not eqv(d.get('bazQux'), ('o', j)) or 'lastOne' not in d:
                    return 6
            else:
                if not isinstance(d, tuple) or not eqv(d[0], ('o', i)) or not eqv(d[1], ('o', j)):
                    return 5
        elif probe == 4:    # frozen=False inherited
            x = cls.make_unchecked(i, j)
            x.foo_bar = j
            if x.foo_bar != j:
                return 5
        else:               # custom handlers inherited (data path, one key)
            x = cls.from_data({'fooBar': i})
            if not eqv(x.foo_bar, ('m', i)) or x.baz_qux != 1:
                return 5
    except ConvertError:
        return 5
    except Exception as e:
        if crosshair_exc(e):
            raise
        return 10
    return 0


for _sel in range(len(CLS)):
    try:
        body_field_order(_sel, 1, 2)
    except Exception:
        pass
for _sel in range(len(INST)):
    for _f in range(4):
        for _w in (0, 1):
            try:
                body_generic_enforced(_sel, _f, 2, 1, 'a', _w)
                body_generic_enforced(_sel, _f, 4, 1, 'a', _w)
            except Exception:
                pass
for _w in range(3):
    for _p in range(6):
        try:
            body_options_inherited(_w, _p, 1, 2)
        except Exception:
            pass


# ------------------------------------------------------------------ a generic dataclass as the type of a field of another generic

try:
    CRATE_INT = Crate[int]
    make_converter(CRATE_INT)
    DEEP2 = (Deep2[int], Deep2Fwd[int])
    for _c in DEEP2:
        make_converter(_c)
except Exception:
    CRATE_INT = DEEP2 = None


def run_nested_generic(k, i, s, where):
    if CRATE_INT is None:
        return 2
    v = lf(k, i, s)
    want = isinstance(v, int)
    cls = CRATE_INT
    if where == 0:
        data = {'inner': {'item': v}}
    elif where == 1:
        data = {'inner': {'item': 1}, 'many': [{'item': v}]}
    elif where >= 6:
        cls = DEEP2[0] if where == 6 else DEEP2[1]          # (never index with a symbolic selector)
        data = {'nested': {'item': {'inner': 1}}, 'comp': {'item': [v]}}
    else:
        cls = DEEP2[0] if where <= 3 else DEEP2[1]
        if where % 2 == 0:
            data = {'nested': {'item': {'inner': v}}}
        else:
            data = {'nested': {'item': {'inner': 1}}, 'both': {'k': {'item': {'inner': v}}}}
    try:
        cls.from_data(data)
        ok = True
    except ConvertError:
        ok = False
    except Exception as e:
        if crosshair_exc(e):
            raise
        return 10
    if ok != want:
        return 4
    return 0 if ok else -1


_NG = '''
@obligation(pre="0 <= k <= 5 and {lo} <= where <= {hi}", witnesses=(0, -1), timeout=200)
def body_nested_generic_{lo}(k: int, i: int, s: str, where: int) -> int:
    """Crate[int] has inner: Box[int] and many: List[Box[int]]; Deep2[int] has nested: Box[Wrap[int]], comp: Optional[Box[List[int]]]: the argument reaches the nested generic dataclasses at any depth (placements {lo}..{hi})"""
    if len(s) > 2:
        return -99
    return run_nested_generic(k, i, s, where)
'''
for (_lo, _hi) in ((0, 1), (2, 3), (4, 5), (6, 7)):
    exec(_NG.format(lo=_lo, hi=_hi))
body_nested_generic = run_nested_generic

for _k in range(6):
    for _w in range(8):
        try:
            body_nested_generic(_k, 1, 'a', _w)
        except Exception:
            pass


@obligation(pre="0 <= which <= 2", witnesses=(0,), timeout=120)
def body_generic_tuple_order(which: int, a: int, b: int) -> int:
    """a subscripted generic (a class that declares no field of its own) keeps the field order of its origin in the tuple layout: positions bind to the positional fields, keyword-only fields are written last"""
    try:
        if which == 0:
            x = KWG[int].from_data((a, b))
            if x.x != a or x.y != b or x.tag != 't' or not eqv(x.into_data(), (a, b, 't')):
                return 1
        elif which == 1:
            x = KWGsub[int].from_data((a, b))
            if x.x != a or x.y != b or x.tag != 't' or not eqv(x.into_data(), {'x': a, 'y': b, 'tag': 't'}) or list(x.into_data().keys()) != ['x', 'y', 'tag']:
                return 1
        else:
            x = FL[int].from_data((a, [b]))
            if x.x != a or not eqv(x.ys, [b]) or not eqv(x.into_data(), (a, [b])):
                return 1
    except Exception as e:
        if crosshair_exc(e):
            raise
        return 10
    return 0


for _w in range(3):
    try:
        body_generic_tuple_order(_w, 1, 2)
    except Exception:
        pass


@obligation(pre="0 <= first <= 5 and 0 <= second <= 5 and first != second", witnesses=(0,), timeout=240)
def body_generic_history(first: int, second: int) -> int:
    """a subscripted generic gets the type argument it was subscripted with -- also after an equal-comparing argument (a union nested in list[...] / dict[...] in the other member order) was subscripted before"""
    from props import shared as _sh
    a = b = 0
    for k in range(6):
        if first == k:
            a = k
        if second == k:
            b = k
    return _sh.check_generic_history(a, b)
