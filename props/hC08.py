"""C08 harness: error messages are total and complete.

Failing conversions are produced by the real converters from values whose SHAPE is symbolic: one or two faults, chosen by
the solver among 20 fault sites (wrong kind at depth 1-4, missing / unexpected / duplicated keys, mixed-kind unexpected keys (top level, and inside a nested product node next to missing fields),
failing and raising predicates, raising validation hook, wrong tuple length, sums inside products inside sums, fused
single-child chains, several missing fields one of which has aliases, union alternatives with one description), with concrete sentinel leaves (rendering would realise symbolic ones).  Each injected fault carries
the tokens the text must contain, in nesting order.  Oracle: containment rules read off the property statement.
Verdict codes: 1 rendering raised; 2 empty text; 4 a second rendering differs; 5 rendering changed the tree; 6 a failing path
component / expectation / name / value / cause message is missing from the text or out of order; 7 the conversion did not
fail although a fault was injected; 10 the conversion raised something else.  Witness: -1 rendered and checked, 0 no fault.
"""
import typing as t
from typing import List, Optional, Union

import pane
from pane import PaneBase, field
from pane.annotations import Condition, Positive
from pane.convert import make_converter
from pane.errors import ConvertError

from hlib import obligation, crosshair_exc


class Leaf(PaneBase):
    n: int
    s: str = 's'

    def __post_init__(self):
        if self.n == 13:
            raise ValueError("HOOKMSG13")


class Mid(PaneBase, in_format=('struct', 'tuple')):
    leaf: Leaf
    items: List[Union[int, Leaf]] = field(default_factory=list)
    alt: Union[int, bool, None] = None
    al: int = field(default=0, aliases=('alias_al',))


class Req(PaneBase):
    w: int = field(aliases=('W',))
    v: int
    o: int = 0


TB = t.TypeVar('TB')


class Box(PaneBase, t.Generic[TB]):
    item: TB = field(aliases=('value',))
    label: str = ''


def _pred(v):
    if v == 13:
        raise ZeroDivisionError("PREDMSG13")
    return v > 0


TOP = {
    'top': Mid,
    'pos': t.Annotated[int, Condition(_pred, 'is_lucky')],
    'deep': {'x': {'y': {'z': int}}},
    'seq': t.Tuple[int, t.List[int]],
    'setl': t.Set[t.Tuple[int, t.List[int]]],            # items convert, building the set raises (unhashable): a cause to report
    'deep2': {'x': {'y': {'z': int}, 'm': int}},
    'req': Req,
    'box': t.Optional[t.Union[Box[int], Box[t.List[int]]]],       # two alternatives with the same description
}
CONV = make_converter(TOP)

# sentinel wrong-kind leaves
SENT = ('SENTstr', ['SENTlist'], 7.25, None)


def sentinel(k):
    if k == 0:
        return SENT[0]
    elif k == 1:
        return SENT[1]
    elif k == 2:
        return SENT[2]
    else:
        return SENT[3]


def valid():
    return {'top': {'leaf': {'n': 1, 's': 'ok'}, 'items': [1, {'n': 2}], 'alt': 1, 'al': 0}, 'pos': 5,
            'deep': {'x': {'y': {'z': 3}}}, 'seq': (1, [2, 3]), 'req': {'w': 1, 'v': 2}, 'box': {'item': 1},
            'setl': [], 'deep2': {'x': {'y': {'z': 3}, 'm': 1}}}


def inject(d, site, k, reqs):
    """apply fault `site` (1..14) with wrong-kind selector k to the valid value d; append the required token sequences"""
    s = sentinel(k)
    shown = str(s)
    if site == 1:
        d['top']['leaf']['n'] = s
        reqs.append(['top', 'leaf', 'n', 'an int', shown])
    elif site == 2:
        del d['top']['leaf']['n']
        reqs.append(['top', 'leaf', "n'"])
        reqs.append(['Missing required field'])
    elif site == 3:
        d['top']['leaf']['zz'] = 1
        reqs.append(['top', 'leaf', "zz'"])
        reqs.append(['Unexpected field'])
    elif site == 4:
        d['top']['items'][1] = s
        reqs.append(['top', 'items', '1', 'Expected one of', 'an int', shown])
    elif site == 5:
        d['top']['alt'] = s if k != 3 else 'SENTalt'
        reqs.append(['top', 'alt', 'Expected one of', 'an int', 'a bool', 'null', shown if k != 3 else 'SENTalt'])
    elif site == 6:
        d['top']['alias_al'] = 4
        reqs.append(['top', 'Duplicate key', 'alias_al'])
    elif site == 7:
        d['pos'] = -1
        reqs.append(['pos', 'is_lucky'])
        reqs.append(['pos', '-1'])
    elif site == 8:
        d['pos'] = 13
        reqs.append(['pos', 'is_lucky', 'PREDMSG13'])
    elif site == 9:
        d['deep']['x']['y']['z'] = s
        reqs.append(['deep', 'x', 'y', 'z', 'an int', shown])
    elif site == 10:
        del d['deep']['x']['y']['z']
        reqs.append(['deep', 'x', 'y', "z'"])
        reqs.append(['Missing required field'])
    elif site == 11:
        d['top'] = [1, 2, 3, 4, 5, 6]
        reqs.append(['top', 'length'])
    elif site == 12:
        d['top']['leaf']['n'] = 13
        reqs.append(['top', 'leaf', 'HOOKMSG13'])
    elif site == 13:
        d[7] = 1
        d[None] = 2
        reqs.append(["Unexpected field '7'"])
        reqs.append(["Unexpected field 'None'"])
    elif site == 15:
        d['top']['al'] = 'SENTal'            # the first spelling fails to convert, the second spelling is still a duplicate
        d['top']['alias_al'] = 4
        reqs.append(['top', 'Duplicate key', 'alias_al'])
        reqs.append(['top', 'al', 'an int'])
    elif site == 16:
        d['req'] = {'o': 1} if k % 2 == 0 else {}
        if k >= 2:
            # unexpected keys of two non-string kinds INSIDE a nested product node, next to missing fields (site 13 has them at
            # the top level only): they must be named like any other key, fused ('req.5') or not
            d['req'][5] = 1
            d['req'][None] = 2
            reqs.append(['Unexpected field'])
            reqs.append(['req', "5'"])
            reqs.append(['req', "None'"])
        reqs.append(['Missing required field'])
        reqs.append(['req', "v'"])
        reqs.append(['req', "w"])
    elif site == 17:
        d['box'] = {'value': s if k != 1 else 'SENTbox'}         # neither an int nor a list of ints: both alternatives fail, each its own way
        reqs.append(['box', 'Expected one of', 'value', 'an int'])
        reqs.append(['box', 'Expected one of', 'value', 'sequence of ints'])
    elif site == 18:
        d['box'] = {'item': ['SENTel'], 'label': 0}
        reqs.append(['box', 'item', 'an int'])
        reqs.append(['box', 'item', '0', 'an int', 'SENTel'])
        reqs.append(['box', 'label', 'a string'])
    elif site == 19:
        d['setl'] = [[1, [2]]]
        reqs.append(['setl', 'unhashable type'])
    elif site == 20:
        del d['deep2']['x']['m']
        d['deep2']['x']['y']['z'] = s
        reqs.append(['deep2', 'x', 'y', 'z', 'an int', shown])
        reqs.append(['Missing required field'])
        reqs.append(['deep2', 'x', "m'"])
    elif site == 14:
        d['seq'] = (s if k != 3 else 'x', [2, s])
        reqs.append(['seq', '0', 'an int'])
        reqs.append(['seq', '1', '1', 'an int', shown])


def contains_in_order(text, tokens):
    pos = 0
    for tok in tokens:
        i = text.find(tok, pos)
        if i < 0:
            return False
        pos = i + len(tok)
    return True


def incompatible(s1, s2):
    """faults on the same branch can mask each other: only compatible sites are combined"""
    return ((s1 == 11 and s2 in (1, 2, 3, 4, 5, 6, 12, 15)) or (s2 == 11 and s1 in (1, 2, 3, 4, 5, 6, 12, 15))
                or (s1 in (6, 15) and s2 in (6, 15)) or (s1 in (17, 18) and s2 in (17, 18))
                or (s1 in (1, 2, 3, 12) and s2 in (1, 2, 3, 12) and (s1 == 12 or s2 == 12 or (s1 in (1, 2) and s2 in (1, 2)))) or (s1 in (7, 8) and s2 in (7, 8)) or (s1 in (9, 10) and s2 in (9, 10)))


def check_render(s1, k1, s2, k2, s3=0):
    d = valid()
    reqs = []
    if s1 != 0:
        inject(d, s1, k1, reqs)
    if s2 != 0 and s2 != s1:
        if not incompatible(s1, s2):
            inject(d, s2, k2, reqs)
    if s3 != 0 and s3 != s1 and s3 != s2:
        # a third fault (thorough tier), only where it is compatible with both others
        if not incompatible(s1, s3) and not incompatible(s2, s3) and not incompatible(s1, s2):
            inject(d, s3, 0, reqs)
    if not reqs:
        try:
            CONV.convert(d)
        except Exception as e:
            if crosshair_exc(e):
                raise
            return 10
        return 0
    try:
        CONV.convert(d)
        return 7
    except ConvertError as e:
        err = e
    except Exception as e:
        if crosshair_exc(e):
            raise
        return 10
    before = repr(err.tree)
    try:
        text = str(err)
        text2 = str(err.tree)
    except Exception as e:
        if crosshair_exc(e):
            raise
        return 1
    if len(text) == 0:
        return 2
    if text != text2 or str(err) != text:
        return 4
    if repr(err.tree) != before:
        return 5
    for tokens in reqs:
        if not contains_in_order(text, tokens):
            return 6
    return -1


for _s1 in range(21):
    for _s2 in (0, 3, 9):
        for _k in range(4):
            try:
                check_render(_s1, _k, _s2, _k)
            except Exception:
                pass

_T = '''
@obligation(pre="{lo} <= s1 <= {hi} and 0 <= k1 <= 3 and 0 <= s2 <= 20 and 0 <= k2 <= 3 and (s2 == 0 or k2 == 0 or s2 in (1, 4, 5, 9, 14, 16, 17, 20)) and (k1 == 0 or s1 in (1, 4, 5, 9, 14, 16, 17, 20))",
            witnesses={wit}, timeout=480)
def body_render_{lo}(s1: int, k1: int, s2: int, k2: int) -> int:
    """rendering the error of a conversion with one or two injected faults (first fault site {lo}..{hi}) never raises, is stable, and names every failing path component, expectation, key and cause"""
    return check_render(s1, k1, s2, k2)
'''
for (_lo, _hi) in ((0, 1), (2, 3), (4, 5), (6, 8), (9, 10), (11, 12), (13, 15), (16, 16), (17, 17), (18, 18), (19, 20)):
    exec(_T.format(lo=_lo, hi=_hi, wit=(0, -1) if _lo == 0 else (-1,)))


_T3 = '''
@obligation(pre="{lo} <= s1 <= {hi} and s1 < s2 <= 20 and s2 < s3 <= 20 and 0 <= k1 <= 3 and (k1 == 0 or s1 in (1, 4, 5, 9, 14, 16, 17, 20))",
            witnesses=(-1,), timeout=600, tiers=('thorough',))
def body_render3_{lo}(s1: int, k1: int, s2: int, s3: int) -> int:
    """three injected faults at once (first fault site {lo}..{hi}, sites increasing): rendering never raises, is stable, and names every failing path component, expectation, key and cause"""
    return check_render(s1, k1, s2, 0, s3)
'''
for (_lo, _hi) in ((1, 2), (3, 4), (5, 6), (7, 9), (10, 12), (13, 18)):
    exec(_T3.format(lo=_lo, hi=_hi))
