"""C06 harness: typed values are fixed points of convert.

(i) for data d: x = convert(d, T) => convert(x, T) == x with the same type (idempotence on conversion results);
(ii) natively built Python values x of type T (sets, deques, Counters, enum members, dataclass instances alone and nested,
Fraction, Decimal, dates, paths, compiled patterns, Range, ValueOrList): convert(x, T) == x, and Cls(field=x).field == x.
Oracle: convert against its own input (DESIGN.md 3.4 (a)).
Verdict codes: 1 convert(x, T) raised ConvertError; 2 result differs from x; 4 result has a different type; 5 raised another
exception; 6 a dataclass constructor did not accept the typed value unchanged.
Witness classes: 0 fixed point checked, -1 d rejected (nothing to check).
"""
import collections
import datetime
import decimal
import enum
import fractions
import pathlib
import re
import typing as t
from typing import List, Dict, Optional, Union, Literal

import pane
from pane import PaneBase, field
from pane.convert import make_converter
from pane.errors import ConvertError
from pane.types import Range, ValueOrList

from hlib import obligation, crosshair_exc, eqv, lf, lf3, cint
from props import shared
from props.shared import TYPES, P1, P2, PN, PT, E1, EI, PAl, PH

shared.export(globals())


def fixed_point(T, x):
    try:
        y = pane.convert(x, T)
    except ConvertError:
        return 1
    except Exception as e:
        if crosshair_exc(e):
            raise
        return 5
    if type(y) is not type(x):
        return 4
    if not eqv(x, y):
        return 2
    return 0


NAMES = [n for n in TYPES if n not in ('picky', 'pattern', 'date', 'decimal', 'fraction', 'range', 'myint', 'cond_raise', 'pi',
                                       'tag_ext', 'tag_adj', 'opt_tag_ext', 'union_tag_adj')]      # externally/adjacently tagged unions wrap the variant


def ORACLE(name, v, grp):
    T = TYPES[name]
    try:
        x = pane.from_data(v, T)
    except ConvertError:
        return -1
    return fixed_point(T, x)


shared.warm(lambda name, s: ORACLE(name, s, 'A') if name in NAMES else None)
shared.emit(globals(), "convert is idempotent on its results", names=NAMES, groups='ABC', quick_groups='A')
shared.emit_td(globals(), "convert is idempotent on its results", names=[k for (k, v) in shared.TD.items() if v[0] in NAMES])


# ------------------------------------------------------------------ natively built typed values

class Holder(PaneBase):
    """a dataclass whose constructor must accept already-typed arguments unchanged"""
    s: t.Set[int] = field(default_factory=set)
    hidden: int = field(default=0, exclude=True)          # an excluded field that is NOT last
    fs: t.FrozenSet[int] = frozenset()
    dq: t.Deque[int] = field(default_factory=collections.deque)
    e: Optional[E1] = None
    p: Optional[P1] = None
    ps: List[P2] = field(default_factory=list)
    fr: Optional[fractions.Fraction] = None
    dec: Optional[decimal.Decimal] = None
    d: Optional[datetime.date] = None
    dt: Optional[datetime.datetime] = None
    tm: Optional[datetime.time] = None
    path: Optional[pathlib.PurePosixPath] = None
    pat: Optional[t.Pattern[str]] = None
    vol: Optional[ValueOrList[int]] = None
    u: Union[P1, EI, None] = None
    cnt: t.Counter[str] = field(default_factory=collections.Counter)
    tup: t.Tuple[int, str] = (0, '')


make_converter(Holder)
DATES = (datetime.date(2020, 1, 2), datetime.date(1999, 12, 31))
DTS = (datetime.datetime(2020, 1, 2, 3, 4, 5), datetime.datetime(2020, 1, 2, 3, 4, 5, 678000), datetime.datetime(2020, 1, 2, tzinfo=datetime.timezone.utc))
TIMES = (datetime.time(1, 2, 3), datetime.time(23, 59, 59, 999999))
PATS = (re.compile('a+'), re.compile(r'^\\d{2}$'))
FRS = (fractions.Fraction(1, 3), fractions.Fraction(-5, 2), fractions.Fraction(4, 1))
DECS = (decimal.Decimal('1.5'), decimal.Decimal('-0.001'), decimal.Decimal('1E+3'))


class VL(PaneBase):
    """legacy schema: same tag key and tag value as shared.VX, other fields"""
    t: Literal['x'] = 'x'
    legacy: int = 0


class VM(PaneBase):
    t: Literal['m'] = 'm'
    legacy: int = 0


TWO_TAGGED = t.Union[TYPES['tag_int'], t.Annotated[t.Union[VL, VM], pane.annotations.Tagged('t')]]


class HT(PaneBase, out_format='tuple', in_format=('tuple', 'struct')):
    """tuple layout with a derived (init=False, excluded) field BEFORE fields whose types serialise differently"""
    a: fractions.Fraction
    hidden: int = field(init=False, exclude=True, default=0)
    b: datetime.date = datetime.date(2020, 1, 2)
    c: t.FrozenSet[int] = frozenset()


_TN = t.TypeVar('_TN')


class NItem(PaneBase, t.Generic[_TN]):
    value: _TN


class NShelf(PaneBase, t.Generic[_TN]):
    """the type variable reaches another generic dataclass only THROUGH typing constructs"""
    items: t.List[NItem[_TN]] = field(default_factory=list)
    spare: t.Optional[NItem[_TN]] = None
    by_name: t.Dict[str, NItem[_TN]] = field(default_factory=dict)


NSHELF = (NShelf[fractions.Fraction], NShelf[datetime.date], NShelf[E1])
NITEM = (NItem[fractions.Fraction], NItem[datetime.date], NItem[E1])


class IN1(PaneBase):
    """explicit in_names, no out_name: written under the python name, which is always an input name"""
    v: int = field(in_names=('vee',), default=0)
    w: int = 0


class IN2(PaneBase, in_rename='camel'):
    """input style only: written under the python names"""
    some_field: int = 0
    other: Optional[P1] = None


COND_FR = t.Annotated[fractions.Fraction, pane.val_range(min=0, max=1)]
COND_DATE = t.Annotated[datetime.date, pane.Condition(lambda d: d.year >= 2000, 'this century')]
COND_DEC = t.Annotated[decimal.Decimal, pane.Positive]
COND_SET = t.Annotated[t.Set[int], pane.len_range(min=1)]


def pick2(xs, sel):
    n = 0
    for x in xs:
        if n == sel:
            return x
        n += 1
    return xs[0]


def native(kind, sel, i, j):
    """(type, value, Holder field or None)"""
    if kind == 0:
        return t.Set[int], {i, j}, 's'
    elif kind == 1:
        return t.FrozenSet[int], frozenset((i, j)), 'fs'
    elif kind == 2:
        return t.Deque[int], collections.deque([i, j]), 'dq'
    elif kind == 3:
        return E1, (E1.A if sel == 0 else E1.B), 'e'
    elif kind == 4:
        return t.List[EI], [EI.ONE, EI.TWO][:1 + (sel % 2)], None
    elif kind == 5:
        return P1, P1.make_unchecked(a=i, b=1.5), 'p'
    elif kind == 6:
        return t.List[P2], [P2.make_unchecked(a=i, b=None), P2.make_unchecked(a=j, b='s')], 'ps'
    elif kind == 7:
        return t.Dict[str, P1], {'k': P1.make_unchecked(a=i, b=2.0)}, None
    elif kind == 8:
        return Optional[P1], (None if sel == 0 else P1.make_unchecked(a=i, b=0.5)), None
    elif kind == 9:
        return t.Union[P1, EI, None], (P1.make_unchecked(a=i, b=0.5) if sel == 0 else (EI.TWO if sel == 1 else None)), 'u'
    elif kind == 10:
        return PN, PN.make_unchecked(p=P1.make_unchecked(a=i, b=1.0), q=[P2.make_unchecked(a=j, b=None)]), None
    elif kind == 11:
        return fractions.Fraction, pick2(FRS, sel), 'fr'
    elif kind == 12:
        return decimal.Decimal, pick2(DECS, sel), 'dec'
    elif kind == 13:
        return datetime.date, pick2(DATES, sel), 'd'
    elif kind == 14:
        return datetime.datetime, pick2(DTS, sel), 'dt'
    elif kind == 15:
        return datetime.time, pick2(TIMES, sel), 'tm'
    elif kind == 16:
        return pathlib.PurePosixPath, pathlib.PurePosixPath('a/b' if sel == 0 else '/x'), 'path'
    elif kind == 17:
        return t.Pattern[str], pick2(PATS, sel), 'pat'
    elif kind == 18:
        return ValueOrList[int], (ValueOrList.from_val(i) if sel == 0 else ValueOrList.from_list([i, j])), 'vol'
    elif kind == 19:
        return t.Counter[str], collections.Counter({'a': i, 'b': j}), 'cnt'
    elif kind == 20:
        return t.Tuple[int, str], (i, 's'), 'tup'
    elif kind == 21:
        return t.List[fractions.Fraction], [pick2(FRS, sel)], None
    elif kind == 22:
        return t.Dict[str, datetime.date], {'k': pick2(DATES, sel)}, None
    elif kind == 23:
        return PT, PT.make_unchecked(a=i, b='s'), None
    elif kind == 24:
        return PAl, PAl.make_unchecked(a_b=i, b=[j]), None
    elif kind == 25:
        return t.List[t.Optional[datetime.datetime]], [None, pick2(DTS, sel)], None
    elif kind == 26:
        return COND_FR, pick2((fractions.Fraction(1, 3), fractions.Fraction(0), fractions.Fraction(1)), sel), None
    elif kind == 27:
        return COND_DATE, pick2(DATES[:1] * 3, sel), None
    elif kind == 28:
        return t.List[COND_DEC], [decimal.Decimal('1.5')], None
    elif kind == 29:
        return COND_SET, {i, j, 5}, None
    elif kind == 30:
        return IN1, IN1.make_unchecked(v=i, w=j), None
    elif kind == 31:
        return t.List[IN2], [IN2.make_unchecked(some_field=i, other=P1.make_unchecked(a=j, b=1.0))], None
    elif kind == 32:
        # an alias whose union members are in the OTHER order was used just before: must not matter
        pane.convert([1.5, 2], list[t.Union[float, int]])
        return list[t.Union[int, float]], [i, 2.5, j], None
    elif kind == 33:
        pane.convert({'k': 1}, dict[str, t.Union[int, str]])
        return dict[str, t.Union[str, int]], {'k': i, 'q': 's'}, None
    elif kind == 34:
        return TWO_TAGGED, (VL.make_unchecked(legacy=i) if sel == 0 else (VM.make_unchecked(legacy=i) if sel == 1 else shared.VX.make_unchecked(a=i))), None
    elif kind == 35:
        return t.List[TWO_TAGGED], [VL.make_unchecked(legacy=i), shared.VY.make_unchecked(a='s')], None
    elif kind == 36:
        x = HT.make_unchecked(a=pick2(FRS, sel), b=pick2(DATES, sel), c=frozenset((i, j)))
        return (HT if sel != 2 else t.Dict[str, t.Optional[HT]]), (x if sel != 2 else {'k': x}), None
    elif kind == 38:
        # values whose serialised form differs from the value (Fraction, date, enum member), two generic dataclasses deep
        n = 0 if sel == 0 else (1 if sel == 1 else 2)
        v = pick2(FRS, i + 1) if n == 0 else (pick2(DATES, i + 1) if n == 1 else (E1.A if i > 0 else E1.B))
        It = NITEM[0] if n == 0 else (NITEM[1] if n == 1 else NITEM[2])
        Sh = NSHELF[0] if n == 0 else (NSHELF[1] if n == 1 else NSHELF[2])
        x = Sh.make_unchecked(items=[It.make_unchecked(value=v)], spare=(It.make_unchecked(value=v) if j > 0 else None),
                              by_name=({'k': It.make_unchecked(value=v)} if j == 0 else {}))
        return Sh, x, None
    elif kind == 39:
        n = 0 if sel == 0 else (1 if sel == 1 else 2)
        v = pick2(FRS, i + 1) if n == 0 else (pick2(DATES, i + 1) if n == 1 else E1.A)
        It = NITEM[0] if n == 0 else (NITEM[1] if n == 1 else NITEM[2])
        Sh = NSHELF[0] if n == 0 else (NSHELF[1] if n == 1 else NSHELF[2])
        return t.List[Sh], [Sh.make_unchecked(items=[It.make_unchecked(value=v), It.make_unchecked(value=v)])], None
    else:
        # date first / datetime first: a date-only text is read by both, so the member order decides the type that comes back
        pane.convert([datetime.datetime(2020, 1, 2, 3, 4)], list[t.Union[datetime.datetime, datetime.date]])
        return list[t.Union[datetime.date, datetime.datetime]], [pick2(DATES, sel)], None


for _k in range(40):
    for _s in range(3):
        try:
            (_T, _x, _f) = native(_k, _s, 1, 0)
            fixed_point(_T, _x)
            if _f:
                Holder(**{_f: _x})
        except Exception:
            pass

_NAT = '''
@obligation(pre="{lo} <= kind <= {hi} and 0 <= sel <= 2 and -1 <= i <= 1 and -1 <= j <= 1", witnesses=(0,), timeout=240)
def body_native_{lo}(kind: int, sel: int, i: int, j: int) -> int:
    """natively built typed values (kinds {lo}..{hi}) are fixed points of convert, and dataclass constructors accept them unchanged"""
    (T, x, fld) = native(kind, sel, i, j)
    r = fixed_point(T, x)
    if r:
        return r
    if fld is not None:
        try:
            h = Holder(**{{fld: x}})
        except Exception as e:
            if crosshair_exc(e):
                raise
            return 6
        got = getattr(h, fld)
        if type(got) is not type(x) or not eqv(got, x):
            return 6
        # the dataclass instance itself is a fixed point too (serialised field by field with each field's own converter)
        r = fixed_point(Holder, h)
        if r:
            return r
    return 0
'''
for _lo in range(0, 40, 2):
    exec(_NAT.format(lo=_lo, hi=min(_lo + 1, 39)))


@obligation(pre="0 <= which <= 2 and 0 <= e <= 1", witnesses=(0,), timeout=120)
def body_range(which: int, e: int) -> int:
    """a pane.types.Range instance is a fixed point of convert and is accepted by a dataclass constructor"""
    if which == 0:
        r = Range[int](0, 4 if e == 0 else 6, 3)
    elif which == 1:
        r = Range[int](0, 4 if e == 0 else 6, step=2)
    else:
        r = Range[float](0.0, 1.0, 3)
    return fixed_point(Range[int] if which <= 1 else Range[float], r)


try:
    body_range(0, 0)
except Exception:
    pass


@obligation(pre="0 <= first <= 5 and 0 <= second <= 5 and first != second", witnesses=(0,), timeout=240)
def body_generic_history(first: int, second: int) -> int:
    """convert through a subscripted generic dataclass does not depend on which equal-comparing type argument was subscripted before"""
    from props import shared as _sh
    n = 0
    a = b = 0
    for k in range(6):
        if first == k:
            a = k
        if second == k:
            b = k
    return _sh.check_generic_history(a, b)
