"""Type expressions of nesting depth 3 drawn from the type grammar with VERIF_SEED, and type-directed values for them.

Shared by the thorough tiers of C01 (reference model), C03 (pass agreement), C04 (escaping exception), C05 (round trip),
C06 (fixed point), C07 (tree composition is judged by C03's agreement only) and C09 (no mutation): the same drawn types, each
property's own oracle.  The types are regenerated from the seed at import (replay scripts carry the seed); nothing is stored.
"""
import os
import random
import typing as t
from typing import Literal, Optional

from pane.annotations import Positive
from pane.convert import make_converter

from hlib import lf
from props.shared import P1, E1, EI

SEED = int(os.environ.get('VERIF_SEED', '0') or 0)
N_TYPES = 24

LEAVES = [int, float, str, bool, type(None), Literal['a', 1], E1, EI, P1, t.Annotated[int, Positive], t.Any]
HASHABLE_LEAVES = [int, str, bool, Literal['a', 1], E1]


def gen_type(rnd, depth):
    """a random type expression of nesting depth <= depth from the grammar of DESIGN.md 3.2"""
    if depth == 0 or rnd.random() < 0.15:
        return rnd.choice(LEAVES)
    c = rnd.randrange(9)
    if c == 0:
        return t.List[gen_type(rnd, depth - 1)]
    elif c == 1:
        return t.Tuple[gen_type(rnd, depth - 1), gen_type(rnd, depth - 1)]
    elif c == 2:
        return t.Tuple[gen_type(rnd, depth - 1), ...]
    elif c == 3:
        return t.Dict[str, gen_type(rnd, depth - 1)]
    elif c == 4:
        return Optional[gen_type(rnd, depth - 1)]
    elif c == 5:
        a, b = gen_type(rnd, depth - 1), gen_type(rnd, depth - 1)
        try:
            return t.Union[a, b]
        except TypeError:
            return t.List[a]
    elif c == 6:
        return {'a': gen_type(rnd, depth - 1), 'b': gen_type(rnd, depth - 1)}
    elif c == 7:
        return t.Set[rnd.choice(HASHABLE_LEAVES)]
    else:
        return t.Sequence[gen_type(rnd, depth - 1)]


def gen_types(seed, n=N_TYPES, salt=424242):
    rnd = random.Random(salt + seed)
    out = []
    tries = 0
    while len(out) < n and tries < 500:
        tries += 1
        try:
            T = gen_type(rnd, 3)
            make_converter(T)
        except TypeError:
            continue        # struct literals cannot sit inside typing generics: regenerate
        out.append(T)
    return out


class Slots:
    def __init__(self, slots):
        self.slots = list(slots)
        self.n = 0

    def next(self):
        if self.n < len(self.slots):
            s = self.slots[self.n]
        else:
            s = (2, 1, 'a')            # beyond the third leaf: a fixed int
        self.n += 1
        return s


def build(T, sl, alt):
    """a value shaped like T (so that only the LEAVES decide membership), leaves from the symbolic slots; `alt` picks the
    second member of unions / None for Optional / the empty container"""
    if isinstance(T, dict):
        return {k: build(v, sl, alt) for (k, v) in T.items()}
    origin = t.get_origin(T)
    args = t.get_args(T)
    if origin is t.Annotated:
        return build(args[0], sl, alt)
    if origin is t.Union:
        if alt and type(None) in args:
            return None
        return build(args[1] if (alt and len(args) > 1) else args[0], sl, alt)
    if origin in (list, set, frozenset) or (origin is not None and origin.__name__ in ('Sequence',)):
        return [] if (alt and origin is list) else [build(args[0], sl, alt)]
    if origin is tuple:
        if len(args) == 2 and args[1] is Ellipsis:
            return (build(args[0], sl, alt), build(args[0], sl, alt))
        return tuple(build(a, sl, alt) for a in args)
    if origin is dict:
        return {'k': build(args[1], sl, alt)}
    if T is P1:
        (k, i, s) = sl.next()
        return {'a': lf(k, i, s, True)}
    (k, i, s) = sl.next()
    ci = T in (float, E1, EI) or origin is t.Literal
    return lf(k, i, s, ci)


_T = '''
@obligation(pre="0 <= k1 <= 5 and 0 <= k2 <= 5 and 0 <= k3 <= 5 and (k2 == 2 or k3 == 2)", witnesses=(), timeout={timeout}, tiers=('thorough',))
def body_depth3_{idx}(k1: int, i1: int, s1: str, k2: int, i2: int, s2: str, k3: int, i3: int, s3: str, alt: bool) -> int:
    """{what}; seeded depth-3 type #{idx} (seed {seed}): {tyrepr}"""
    v = _gt_build(GEN[{idx}], _gt_Slots([(k1, i1, s1), (k2, i2, s2), (k3, i3, s3)]), alt)
    return check_depth3({idx}, v)
'''


def emit_depth3(ns, what, gen, timeout=240):
    """register one thorough-tier obligation per drawn type in the harness namespace `ns`, which must define GEN (the drawn
    types), `check_depth3(idx, value) -> verdict` and `obligation`"""
    ns['_gt_build'] = build
    ns['_gt_Slots'] = Slots
    for i in range(len(gen)):
        exec(_T.format(idx=i, seed=SEED, what=what, timeout=timeout, tyrepr=repr(gen[i]).replace('"', "'")[:150]), ns)


def warm_depth3(ns, gen):
    for i in range(len(gen)):
        for alt in (False, True):
            for k in range(6):
                try:
                    ns['check_depth3'](i, build(gen[i], Slots([(k, 1, 'a'), (2, 0, ''), (4, 1, 'b')]), alt))
                except Exception:
                    pass
