"""C07 harness: error trees localise failures compositionally.

For a rejected value the tree of a composite type must be assembled from what its ELEMENT types report on their own:
a product node's children are keyed by exactly the positions/keys whose element is rejected by the element's own converter
(built separately), each child equals that converter's own tree for the sub-value, `missing` is exactly the absent required
fields, `extra` exactly the unknown keys, a union node has one child per member in declaration order, and every leaf records
the offending sub-value.  Oracle: composite vs elements (DESIGN.md 3.4 (a)); which keys are required/known is read off the type.
Verdict codes: 1 wrong node kind for the failure; 2 children keys differ from the set of positions rejected on their own;
4 a child is not the element's own tree; 5 missing/extra wrong; 6 `actual` is not the offending value; 7 union children;
8 diagnostic pass raised / returned a tree for an accepted value.  Witness classes: 0 value accepted (no tree), -1 rejected and its tree checked.
"""
import typing as t
from typing import List, Dict, Optional

import pane
from pane.convert import make_converter
from pane.errors import (ParseInterrupt, WrongTypeError, WrongLenError, ConditionFailedError, DuplicateKeyError,
                         ProductErrorNode, SumErrorNode)
from pane.field import _MISSING

from hlib import obligation, crosshair_exc, eqv, tree_eq
from props import shared
from props.shared import CONVS, TYPES, P1, P2, PAl, PT, PN, PI, PH, E1, EI

shared.export(globals())


def mk(ty):
    return make_converter(ty)


INT, FLOAT, STR, OPT_STR, LIST_INT, OPT_INT = mk(int), mk(float), mk(str), mk(Optional[str]), mk(List[int]), mk(Optional[int])
ANY = mk(t.Any)
UNION_MEMBERS = (INT, STR, LIST_INT)
OPT_LIST_MEMBERS = (mk(t.List[t.Union[int, None]]), mk(type(None)))
INT_OR_NONE = mk(t.Union[int, None])
POS_INT = mk(t.Annotated[int, pane.Positive])
P1C, P2C = mk(P1), mk(P2)
SET_INT = mk(t.Set[int])


def is_seq(v):
    return isinstance(v, (list, tuple))


def is_map(v):
    return isinstance(v, dict)


def leaf_ok(node, v):
    """a leaf node that records the offending value itself"""
    if not isinstance(node, (WrongTypeError, WrongLenError, ConditionFailedError)):
        return 1
    if not eqv(node.actual, v):
        # (an enum of ints reports the value after int(): False is shown as 0 -- equal, not identical in type: accepted)
        if not (isinstance(v, (bool, int)) and isinstance(node.actual, (bool, int)) and node.actual == v):
            return 6
    return 0


def product_ok(node, v, elems, missing=(), extra=()):
    """elems: list of (key, element converter, sub-value).  The expected children are those the element rejects on its own."""
    if not isinstance(node, ProductErrorNode):
        return 1
    if not eqv(node.actual, v):
        return 6
    want = {}
    for (k, conv, sub) in elems:
        sub_tree = conv.collect_errors(sub)
        if sub_tree is not None:
            want[k] = sub_tree
    if set(node.children.keys()) != set(want.keys()):
        return 2
    for k in want:
        if not tree_eq(node.children[k], want[k]):
            return 4
    if set(node.missing) != set(missing) or set(node.extra) != set(extra):
        return 5
    return 0


def sum_ok(node, v, members):
    if not isinstance(node, SumErrorNode):
        return 1
    if len(node.children) != len(members):
        return 7
    for (child, m) in zip(node.children, members):
        if not tree_eq(child, m.collect_errors(v)):
            return 7
    return 0


def dataclass_struct_ok(node, v, cls):
    info = cls.__pane_info__
    convs = {f.name: (f.converter if f.converter is not None else mk(f.type)) for f in info.fields}
    elems, seen, extra, dups = [], set(), set(), []
    for k in v:
        owner = None
        for f in info.fields:
            if f.init and (k == f.name or k in f.in_names):
                owner = f
        if owner is None:
            if not info.opts.allow_extra:
                extra.add(k)
            continue
        if owner.name in seen:
            dups.append(k)
            continue
        seen.add(owner.name)
        elems.append((k, convs[owner.name], v[k]))
    missing = set(f.name for f in info.fields if f.init and f.name not in seen and f.default is _MISSING and f.default_factory is None)
    if not isinstance(node, ProductErrorNode):
        # no field-level failure: only a failing validation hook may remain, reported as a leaf on the whole value
        if dups or missing or extra:
            return 1
        return leaf_ok(node, v)
    if not eqv(node.actual, v):
        return 6
    want = {}
    for (k, conv, sub) in elems:
        st = conv.collect_errors(sub)
        if st is not None:
            want[k] = st
    if set(node.children.keys()) != set(want.keys()) | set(dups):
        return 2
    for k in want:
        if not tree_eq(node.children[k], want[k]):
            return 4
    for k in dups:
        if not isinstance(node.children[k], DuplicateKeyError) or node.children[k].key != k:
            return 4
    if set(node.missing) != missing or set(node.extra) != extra:
        return 5
    return 0


def dataclass_tuple_ok(node, v, cls):
    info = cls.__pane_info__
    pos = [f for f in info.fields if f.init and not f.kw_only]
    req = len([f for f in pos if f.default is _MISSING and f.default_factory is None])
    if not (req <= len(v) <= len(pos)):
        if not isinstance(node, WrongLenError):
            return 1
        if node.actual_len != len(v) or tuple(node.expected_len) != (req, len(pos)) or not eqv(node.actual, v):
            return 6
        return 0
    elems = [(i, (f.converter if f.converter is not None else mk(f.type)), x) for (i, (f, x)) in enumerate(zip(pos, v))]
    if not isinstance(node, ProductErrorNode):
        return leaf_ok(node, v)
    return product_ok(node, v, elems)


def dataclass_ok(node, v, cls):
    fmt = cls.__pane_info__.opts.in_format
    if is_seq(v):
        if 'tuple' not in fmt:
            return leaf_ok(node, v)
        return dataclass_tuple_ok(node, v, cls)
    if is_map(v):
        if 'struct' not in fmt:
            return leaf_ok(node, v)
        return dataclass_struct_ok(node, v, cls)
    return leaf_ok(node, v)


def seq_ok(node, v, elem):
    if not is_seq(v):
        return leaf_ok(node, v)
    return product_ok(node, v, [(i, elem, x) for (i, x) in enumerate(v)])


def fixed_ok(node, v, elems):
    if not is_seq(v) or len(v) != len(elems):
        return leaf_ok(node, v)
    return product_ok(node, v, [(i, c, x) for (i, (c, x)) in enumerate(zip(elems, v))])


def dict_ok(node, v, kconv, vconv):
    if not is_map(v):
        return leaf_ok(node, v)
    if not isinstance(node, ProductErrorNode):
        return 1
    if not eqv(node.actual, v):
        return 6
    bad = set()
    for k in v:
        if kconv.collect_errors(k) is not None or vconv.collect_errors(v[k]) is not None:
            bad.add(str(k))
    if set(node.children.keys()) != bad:
        return 2
    for k in v:
        vt = vconv.collect_errors(v[k])
        kt = kconv.collect_errors(k)
        want = vt if vt is not None else kt          # (a bad value is filed over a bad key under the same name)
        if want is not None and not tree_eq(node.children[str(k)], want):
            return 4
    return 0


def struct_ok(node, v, fields, required):
    if not is_map(v):
        return leaf_ok(node, v)
    elems = [(k, fields[k], v[k]) for k in v if k in fields]
    missing = set(k for k in required if k not in v)
    extra = set(k for k in v if k not in fields)
    return product_ok(node, v, elems, missing, extra)


def nested_ok(node, v, elem):
    """n-d nesting: every list level is a product node over the positions that fail below"""
    if not is_seq(v):
        return 0 if tree_eq(node, elem.collect_errors(v)) else 4
    if not isinstance(node, ProductErrorNode):
        return leaf_ok(node, node.actual) if isinstance(node, WrongTypeError) else 1      # shape mismatch: leaf on the converted value
    bad = {}
    for (i, x) in enumerate(v):
        sub = CONVS['nested']._collect_errors(x) if False else None
    keys = set()
    for (i, x) in enumerate(v):
        if not _nested_accepts(x, elem):
            keys.add(i)
    if set(node.children.keys()) != keys:
        return 2
    for i in keys:
        r = nested_ok(node.children[i], v[i], elem)
        if r:
            return r
    return 0


def _nested_accepts(x, elem):
    if not is_seq(x):
        return elem.collect_errors(x) is None
    for y in x:
        if not _nested_accepts(y, elem):
            return False
    return True


REF = {
    'struct': lambda n, v: struct_ok(n, v, {'a': INT, 'b': OPT_STR}, ('a', 'b')),
    'tuple_fix': lambda n, v: fixed_ok(n, v, (INT, FLOAT)),
    'tuple_lit': lambda n, v: fixed_ok(n, v, (INT, STR)),
    'tuple_struct': lambda n, v: fixed_ok(n, v, (P1C, INT)),
    'list_int': lambda n, v: seq_ok(n, v, INT),
    'set_int': lambda n, v: seq_ok(n, v, INT),
    'tuple_var': lambda n, v: seq_ok(n, v, INT),
    'seq_any': lambda n, v: seq_ok(n, v, ANY),
    'cond_nested': lambda n, v: seq_ok(n, v, POS_INT),
    'list_p1': lambda n, v: seq_ok(n, v, P1C),
    'dict_si': lambda n, v: dict_ok(n, v, STR, INT),
    'dict_if': lambda n, v: dict_ok(n, v, INT, FLOAT),
    'dict_p2': lambda n, v: dict_ok(n, v, STR, P2C),
    'counter': lambda n, v: dict_ok(n, v, ANY, INT),
    'union': lambda n, v: sum_ok(n, v, UNION_MEMBERS),
    'opt_list': lambda n, v: sum_ok(n, v, OPT_LIST_MEMBERS),
    'opt_vol': lambda n, v: sum_ok(n, v, (mk(shared.ValueOrList[int]), mk(type(None)))),
    'cond_set': lambda n, v: leaf_ok(n, v) if SET_INT.collect_errors(v) is None else (0 if tree_eq(n, SET_INT.collect_errors(v)) else 4),
    'p1': lambda n, v: dataclass_ok(n, v, P1),
    'p2': lambda n, v: dataclass_ok(n, v, P2),
    'pal': lambda n, v: dataclass_ok(n, v, PAl),
    'pt': lambda n, v: dataclass_ok(n, v, PT),
    'pn': lambda n, v: dataclass_ok(n, v, PN),
    'pi': lambda n, v: dataclass_ok(n, v, PI),
    'ph': lambda n, v: dataclass_ok(n, v, PH),
    'nested': lambda n, v: nested_ok(n, v, INT),
    'nested_ragged': lambda n, v: nested_ok(n, v, INT),
    'int': lambda n, v: leaf_ok(n, v), 'str': lambda n, v: leaf_ok(n, v), 'strsub': lambda n, v: leaf_ok(n, v), 'none': lambda n, v: leaf_ok(n, v),
    'lit': lambda n, v: leaf_ok(n, v), 'bool': lambda n, v: leaf_ok(n, v),
    'enum_s': lambda n, v: leaf_ok(n, v), 'enum_i': lambda n, v: leaf_ok(n, v),
    'cond_pos': lambda n, v: leaf_ok(n, v) if isinstance(v, int) else (0 if tree_eq(n, INT.collect_errors(v)) else 4),
    'cond_len': lambda n, v: leaf_ok(n, v) if LIST_INT.collect_errors(v) is None else (0 if tree_eq(n, LIST_INT.collect_errors(v)) else 4),
}


def check_tree(name, v):
    conv = CONVS[name]
    ok = True
    try:
        conv.try_convert(v)
    except ParseInterrupt:
        ok = False
    try:
        node = conv.collect_errors(v)
    except Exception as e:
        if crosshair_exc(e):
            raise
        return 8
    if ok:
        return 8 if node is not None else 0
    if node is None:
        return 8
    r = REF[name](node, v)
    return r if r else -1


def ORACLE(name, v, grp):
    return check_tree(name, v)


shared.warm(lambda name, s: ORACLE(name, s, 'A') if name in REF else None)
shared.emit(globals(), "error tree assembled from the elements' own trees", names=[n for n in REF], groups='ABC', quick_groups='ABC')
shared.emit_td(globals(), "error tree assembled from the elements' own trees",
               names=[k for (k, v) in shared.TD.items() if v[0] in REF])


@obligation(pre="0 <= first <= 5 and 0 <= second <= 5 and first != second", witnesses=(0,), timeout=240)
def body_generic_history(first: int, second: int) -> int:
    """a union's error node lists its members in declaration order also inside a generic dataclass subscripted after an equal-comparing argument with the members in the other order"""
    a = b = 0
    for k in range(6):
        if first == k:
            a = k
        if second == k:
            b = k
    r = shared.check_generic_history(a, b, with_tree=True)
    return r if r else 0


@obligation(pre="0 <= k <= 2 and 0 <= first <= 1", witnesses=(0,), timeout=120)
def body_alias_tree_history(k: int, first: int) -> int:
    """a union's error node lists its members in declaration order also when an equal-comparing builtin alias (the same union nested two levels down, members in the other order) was converted to before"""
    if k == 0:
        Ta, Tb, data = dict[str, list[t.Union[int, str]]], dict[str, list[t.Union[str, int]]], {'k': [1.5]}
        path = ('k', 0)
    elif k == 1:
        Ta, Tb, data = list[list[t.Union[int, str]]], list[list[t.Union[str, int]]], [[1.5]]
        path = (0, 0)
    else:
        Ta, Tb, data = tuple[list[t.Union[int, str]], int], tuple[list[t.Union[str, int]], int], ([1.5], 1)
        path = (0, 0)
    order = ((Ta, ('an int', 'a string')), (Tb, ('a string', 'an int')))
    if first == 1:
        order = (order[1], order[0])
    for rnd in range(2):
        for (T, want) in order:
            conv = make_converter(T)
            node = conv.collect_errors(data)
            for p in path:
                if node is None or not hasattr(node, 'children') or not isinstance(node.children, dict):
                    return 21
                node = node.children.get(p, node.children.get(str(p)))
            if node is None or not hasattr(node, 'children') or len(node.children) != 2:
                return 21
            if node.children[0].expected != want[0] or node.children[1].expected != want[1]:
                return 21
    return 0


for _k in range(3):
    try:
        body_alias_tree_history(_k, 0)
    except Exception:
        pass
