"""C01 -- conversion accepts exactly the members of the type, returns the typed value."""
import os

HERE = os.path.dirname(os.path.abspath(__file__))


def harness_files(tier, seed):
    files = [os.path.join(HERE, 'hC01.py')]
    if tier == 'thorough':
        # 24 type expressions of depth 3 drawn from the grammar with VERIF_SEED (regenerated at import from the seed)
        os.environ['VERIF_SEED'] = str(seed)
        files.append(os.path.join(HERE, 'hC01g.py'))
    return files


META = dict(
    bounds="generic depth-1 interchange values (leaf | list len<=2 | dict <=2 keys from a per-type vocabulary of known and foreign "
           "keys | 2-tuple | [[A],B] | {k:[A]}; leaves None/bool/int/float/str(len<=2)/bytes) + symbolic float at top/in list/in dict + "
           "type-directed near-valid values to depth 2 (sequences of length 0..3, structs with optional/extra keys, nested dataclasses)",
    configs="57 type expressions to nesting depth 2-3 (scalars, mixin enums, sequence-keyed mappings, Literal, Enum, all container constructors, struct/tuple literals, "
            "unions, Optional, Annotated conditions, 8 dataclass shapes incl. tuple layout, aliases, hooks, init=False, nesting) + "
            "12 groups of equivalent spellings (typing / PEP 585 / collections.abc / Optional orders / literals / bare forms) + subscripted "
            "generic dataclasses against hand-written monomorphic classes (5 arguments, 6 wrapping constructors) + alias-order and generic-subscription histories; thorough: "
            "+ 24 type expressions of depth 3 drawn from the grammar with VERIF_SEED, on type-directed values with 3 symbolic leaf slots",
    stubs=[],
    outside=["cross-kind equal values against Literal/Enum values (True == 1 == 1.0): not judged",
             "text parsed by stdlib constructors (Decimal, Fraction, dates, paths, regex sources): C03/C04/C06 use a concrete vocabulary",
             "numpy arrays", "tagged unions (C12)", "types deeper than 3"],
    assumptions=["oracle: reference model props/spec.py (about 200 lines) written from docs/using/*.md"],
)
