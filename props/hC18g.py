"""C18, thorough tier: nested handler structures drawn from a grammar with VERIF_SEED.

A drawn structure is a chain of 1-3 dataclasses, the innermost holding an int field `n`, each level optionally deriving from
a base class with its own `custom=` (inherited handlers; one shared base may be inherited at several levels), optionally passing its own `custom=` (in one of five forms:
mapping, function, list of functions, deferring function first, mapping for an unrelated type), the next level reaching it
through a plain field, List, Dict, Optional, Tuple or Union; the innermost `n` may carry a field converter.  The solver chooses
the call-level handler form (none or one of the five) and the int.  Reference (the documented order): field converter, call
level, then the nearest class level from the inside out, where a class's own `custom=` REPLACES what it inherits; a handler
form that does not apply to int (or only defers) is skipped.  Both directions are checked: every level's `n` must carry the
mark of the winner after from_data, and after into_data of an instance built without conversion.
Verdict codes: 1 wrong winner in from_data; 2 wrong winner in into_data; 10 unexpected exception; 3 structure could not be built.
"""
import os
import random
import types
import typing as t

import pane
from pane import PaneBase, field
from pane.convert import make_converter, ConverterHandlers
from pane.converters import Converter
from pane.errors import ParseInterrupt, WrongTypeError

from hlib import obligation, crosshair_exc, eqv, cint

SEED = int(os.environ.get('VERIF_SEED', '0') or 0)
N_STRUCT = 96


class MC(Converter):
    def __init__(self, k):
        self.k = k

    def expected(self, plural=False):
        return f"marked {self.k}"

    def try_convert(self, val):
        if isinstance(val, int) and not isinstance(val, bool):
            return ('in', self.k, val)
        raise ParseInterrupt()

    def collect_errors(self, val):
        if isinstance(val, int) and not isinstance(val, bool):
            return None
        return WrongTypeError(self.expected(), val)

    def into_data(self, val):
        return ('out', self.k, val)

    def __hash__(self):
        return hash(('MCg', self.k))

    def __eq__(self, other):
        return isinstance(other, MC) and other.k == self.k


def handler_fn(k):
    def h(ty, args, *, handlers):
        return MC(k) if ty is int and not args else NotImplemented
    return h


def _defer(ty, args, *, handlers):
    return NotImplemented


def mk_custom(k, form):
    """forms 0-3 apply to int; form 4 is a mapping for an unrelated type"""
    if form == 0:
        return {int: MC(k)}
    if form == 1:
        return handler_fn(k)
    if form == 2:
        return [handler_fn(k)]
    if form == 3:
        return [_defer, handler_fn(k)]
    return {bytes: MC(k)}


WRAPS = ('plain', 'list', 'dict', 'opt', 'tup', 'union')


def wrap_type(w, T):
    return {'plain': T, 'list': t.List[T], 'dict': t.Dict[str, T], 'opt': t.Optional[T], 'tup': t.Tuple[T, str], 'union': t.Union[str, T]}[w]


def wrap_value(w, v):
    return {'plain': v, 'list': [v], 'dict': {'k': v}, 'opt': v, 'tup': [v, 's'], 'union': v}[w]


def unwrap(w, r):
    if w == 'list':
        return r[0]
    if w == 'dict':
        return r['k']
    if w == 'tup':
        return r[0]
    return r


def mkcls(name, bases, ns, **kw):
    return types.new_class(name, bases, kw, lambda d: d.update(ns))


def draw(rnd, idx):
    depth = rnd.randint(1, 3)
    levels = []
    inner = None
    desc = []
    try:
        shared_form = rnd.randint(0, 3)
        Shared = mkcls(f'S{idx}Shared', (PaneBase,), {}, custom=mk_custom(300, shared_form))     # one handler object inherited at several levels
        for lv in range(depth):
            base_k = 100 + lv if rnd.random() < 0.4 else None
            own_k = 200 + lv if rnd.random() < 0.4 else None
            base_form, own_form = rnd.randint(0, 4), rnd.randint(0, 4)
            if rnd.random() < 0.35:
                (Base, base_k, base_form) = (Shared, 300, shared_form)
            else:
                Base = mkcls(f'S{idx}Base{lv}', (PaneBase,), {}, **({'custom': mk_custom(base_k, base_form)} if base_k else {}))
            w = rnd.choice(WRAPS)
            ann = {}
            ns = {'n': 0}
            if inner is not None:
                ann['inner'] = wrap_type(w, inner)
            ann['n'] = int
            fconv = (lv == 0 and rnd.random() < 0.3)
            if fconv:
                ns['n'] = field(default=0, converter=MC(1))
            ns['__annotations__'] = ann
            C = mkcls(f'S{idx}C{lv}', (Base,), ns, **({'custom': mk_custom(own_k, own_form)} if own_k else {}))
            if own_k:
                eff = own_k if own_form != 4 else None        # own custom= replaces the inherited one even when it does not apply
            elif base_k:
                eff = base_k if base_form != 4 else None
            else:
                eff = None
            levels.append(dict(cls=C, eff=eff, wrap=w, fconv=fconv))
            desc.append(f"L{lv}: base={base_k}/{base_form} own={own_k}/{own_form} fconv={fconv} via={w}")
            inner = C
        make_converter(levels[-1]['cls'])
    except Exception as e:
        return dict(desc='; '.join(desc), levels=None, error=repr(e)[:100])
    return dict(desc='; '.join(desc), levels=levels)


def draw_all(seed):
    rnd = random.Random(181818 + seed)
    return [draw(rnd, i) for i in range(N_STRUCT)]


STRUCTS = draw_all(SEED)
CALLS = {0: None, 1: mk_custom(2, 0), 2: mk_custom(2, 1), 3: mk_custom(2, 2), 4: mk_custom(2, 3), 5: mk_custom(2, 4)}
HANDLERS = {k: ConverterHandlers.make(v) for (k, v) in CALLS.items()}


def winner(S, lv, call_eff):
    L = S['levels'][lv]
    if L['fconv']:
        return 1
    if call_eff:
        return 2
    for up in range(lv, len(S['levels'])):
        if S['levels'][up]['eff'] is not None:
            return S['levels'][up]['eff']
    return None


def check(idx, csel, i):
    S = STRUCTS[idx]
    if S['levels'] is None:
        return 3
    levels = S['levels']
    depth = len(levels)
    call_eff = csel in (1, 2, 3, 4)
    data = {'n': i}
    plain = levels[0]['cls'].make_unchecked(n=i)
    for lv in range(1, depth):
        data = {'n': i, 'inner': wrap_value(levels[lv]['wrap'], data)}
        w = levels[lv]['wrap']
        inner_val = plain if w in ('plain', 'opt', 'union') else ([plain] if w == 'list' else ({'k': plain} if w == 'dict' else (plain, 's')))
        plain = levels[lv]['cls'].make_unchecked(n=i, inner=inner_val)
    conv = make_converter(levels[-1]['cls'], HANDLERS[csel])
    try:
        r = conv.convert(data)
        d = conv.into_data(plain)
    except Exception as e:
        if crosshair_exc(e):
            raise
        return 10
    obj, dd = r, d
    for lv in range(depth - 1, -1, -1):
        wk = winner(S, lv, call_eff)
        if not eqv(obj.n, ('in', wk, i) if wk else i):
            return 1
        if not eqv(dd['n'], ('out', wk, i) if wk else i):
            return 2
        if lv > 0:
            w = levels[lv]['wrap']
            obj = unwrap(w, obj.inner)
            dd = unwrap(w, dd['inner'])
    return 0


for _i in range(len(STRUCTS)):
    for _c in range(6):
        try:
            check(_i, _c, 5)
        except Exception:
            pass

_T = '''
@obligation(pre="0 <= csel <= 5", witnesses=(), timeout=240, tiers=('thorough',))
def body_structure_{idx}(csel: int, i: int) -> int:
    """seeded handler structure #{idx} (seed {seed}): {desc}"""
    c = 0
    for n in range(6):
        if csel == n:
            c = n
    return check({idx}, c, cint(i))
'''
for _i in range(len(STRUCTS)):
    exec(_T.format(idx=_i, seed=SEED, desc=STRUCTS[_i]['desc'].replace('"', "'")[:170]))
