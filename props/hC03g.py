"""C03, thorough tier: fast pass and diagnostic pass agree on the depth-3 types drawn with VERIF_SEED (props/gen_types.py).
Verdict codes: 1 the fast pass accepts, the diagnostic pass reports an error; 2 the fast pass rejects, the diagnostic pass
reports none; 3 something other than ParseInterrupt escaped a pass; 4 the passes disagree between two runs."""
from pane.convert import make_converter
from pane.errors import ParseInterrupt

from hlib import obligation, crosshair_exc
from props import gen_types as G

GEN = G.gen_types(G.SEED)
CONV = [make_converter(T) for T in GEN]


def check_depth3(idx, v):
    conv = CONV[idx]
    try:
        try:
            conv.try_convert(v)
            ok = True
        except ParseInterrupt:
            ok = False
        node = conv.collect_errors(v)
    except Exception as e:
        if crosshair_exc(e):
            raise
        return 3
    if ok and node is not None:
        return 1
    if not ok and node is None:
        return 2
    return 0 if ok else -1


G.warm_depth3(globals(), GEN)
G.emit_depth3(globals(), "fast and diagnostic pass agree", GEN)
