"""C11 harness: untagged unions -- the left-most accepting member wins; serialisation uses an accepting member.

For each union U = Union[A1..An] the oracle is the members' OWN converters, built separately (DESIGN.md 3.4 (a)).
Verdict codes: 1 U accepts but no member does; 2 a member accepts but U rejects; 3 harness; 4 result differs from the
left-most accepting member's result; 5 a spelling (nested / direct UnionConverter / Optional / inside List) disagrees;
6 into_data(x, U) is not what any accepting member produces; 7 into_data raised; 8 diagnostic pass disagrees (C03 on
the union itself); 9 union error node does not have one child per member in declaration order.
Witness classes: 0 accepted by member 0, -1 accepted by a later member, -2 rejected by all.
"""
import sys
import typing as t
from typing import Literal, Optional, List

import pane
from pane import PaneBase, field
from pane.convert import make_converter
from pane.converters import UnionConverter
from pane.errors import ParseInterrupt, SumErrorNode

from hlib import (obligation, crosshair_exc, eqv, gv, gvf, GV_SIG, GV_ARGS, GV_PRE, GVF_SIG, GVF_ARGS, GVF_PRE)
from props.shared import P1, P2, PT, E1, EI
from pane.types import ValueOrList


class DA(PaneBase):
    a: int
    b: str = 'x'


class DB(PaneBase):
    a: int
    b: str = 'y'
    c: float = 0.0


class DC(PaneBase, allow_extra=True):
    a: t.Union[int, str]


class PT2(PaneBase, in_format=('tuple', 'struct'), out_format='tuple'):
    a: int
    b: int = 0


import enum as _enum


class EN(_enum.Enum):
    """an enum with a None-valued member: it accepts None itself"""
    UNSET = None
    A = 'a'


# name -> member types (declaration order)
UNIONS = {
    'num': (int, float, complex),
    'num_rev': (complex, float, int),
    'float_int': (float, int),
    'bool_int': (bool, int),
    'int_bool': (int, bool),
    'lit_str': (Literal['a', 'b'], str),
    'str_lit': (str, Literal['a']),
    'none_int_str': (type(None), int, str),
    'list_tuple': (t.List[int], t.Tuple[int, ...]),
    'tuple_list': (t.Tuple[int, int], t.List[int]),
    'list_pt2': (t.List[int], PT2),
    'pt2_list': (PT2, t.List[int]),
    'da_db': (DA, DB),
    'db_da': (DB, DA),
    'dc_da': (DC, DA),
    'dict_struct': (t.Dict[str, int], {'a': int}),
    'struct_dict': ({'a': int}, t.Dict[str, t.Any]),
    'int_list_p1': (int, float, t.List[int], P1),
    'enum_str': (E1, str),
    'listint_liststr': (t.List[int], t.List[str]),
    'vol_str': (ValueOrList[int], str),                 # a member whose own converter is a union (with a constructor)
    'none_vol': (type(None), ValueOrList[int]),
    'enumi_str': (EI, t.List[EI], str),
    'float_any': (float, t.Any),                          # Any accepts everything, but only AFTER the members before it
    'tuple_any_none': (t.Tuple[int, int], t.Any, type(None)),
    'enumnone_none': (EN, type(None)),                    # a member LEFT of None that accepts None and makes something else of it
    'volopt_none_str': (ValueOrList[t.Optional[int]], type(None), str),
}
VOCAB = {'da_db': ('a', 'b', 'c'), 'db_da': ('a', 'b', 'c'), 'dc_da': ('a', 'b', 'zz'), 'dict_struct': ('a', 'b', ''),
         'struct_dict': ('a', 'b', ''), 'int_list_p1': ('a', 'b', 'zz'), 'list_pt2': ('a', 'b', 'zz'), 'pt2_list': ('a', 'b', 'zz')}
NUMERIC = {'num', 'num_rev', 'float_int', 'bool_int', 'int_bool', 'int_list_p1', 'float_any'}
SMALL = {'num', 'num_rev', 'float_int', 'int_list_p1', 'float_any'}      # float()/complex() of a symbolic int: concretised ints

MEMBERS = {}      # name -> tuple of member converters (built separately)
SPELL = {}        # name -> dict of equivalent spellings of the union -> converter
OPT, NONE_FIRST, IN_LIST = {}, {}, {}
NoneT = type(None)


def _hashable(m):
    try:
        hash(m)
        return True
    except TypeError:
        return False


for (_n, _m) in UNIONS.items():
    MEMBERS[_n] = tuple(make_converter(x) for x in _m)
    _typing_ok = all(_hashable(x) for x in _m)          # struct/tuple type literals cannot go into typing.Union
    sp = {'flat': make_converter(t.Union[_m]) if _typing_ok else UnionConverter(_m)}
    if len(_m) >= 3 and _typing_ok:
        sp['nested_r'] = UnionConverter((_m[0], t.Union[_m[1:]]))
        sp['nested_l'] = UnionConverter((t.Union[_m[:2]], *_m[2:]))
    else:
        sp['direct'] = UnionConverter(_m)
    SPELL[_n] = sp
    if _typing_ok:
        # NB: not Optional[t.Union[_m]]: typing's own cache treats Union[int, float] == Union[float, int] as the same key,
        # so Optional[Union[float, int]] may come back with the member order of an earlier Optional[Union[int, float]].
        OPT[_n] = make_converter(t.Union[(*_m, NoneT)])
        NONE_FIRST[_n] = make_converter(t.Union[(NoneT, *_m)])
        IN_LIST[_n] = make_converter(list[t.Union[_m]])    # PEP 585 alias: not cached by typing (see the note above)
    else:
        OPT[_n] = UnionConverter((*_m, NoneT))
        NONE_FIRST[_n] = UnionConverter((NoneT, *_m))
        IN_LIST[_n] = pane.converters.SequenceConverter(list, t.Any)
        IN_LIST[_n].v_conv = sp['flat']


def _try(conv, v):
    try:
        return True, conv.try_convert(v)
    except ParseInterrupt:
        return False, None


def check_union(name, v, deep):
    members = MEMBERS[name]
    first = -1
    expected = None
    i = 0
    for m in members:
        ok, r = _try(m, v)
        if ok and first < 0:
            first = i
            expected = r
        i += 1
    flat = SPELL[name]['flat']
    ok, r = _try(flat, v)
    if ok and first < 0:
        return 1
    if (not ok) and first >= 0:
        return 2
    if ok and not eqv(r, expected):
        return 4
    # diagnostic pass of the union itself
    node = flat.collect_errors(v)
    if ok != (node is None):
        return 8
    if node is not None:
        if not isinstance(node, SumErrorNode) or len(node.children) != len(members):
            return 9
    if deep:
        for (sn, conv) in SPELL[name].items():
            ok2, r2 = _try(conv, v)
            if ok2 != ok or (ok and not eqv(r2, expected)):
                return 5
        # Optional[...] / Union[None, ...]: None is only an extra member
        if v is not None:
            for conv in (OPT[name], NONE_FIRST[name]):
                ok2, r2 = _try(conv, v)
                if ok2 != ok or (ok and not eqv(r2, expected)):
                    return 5
        ok2, r2 = _try(IN_LIST[name], [v])
        if ok2 != ok or (ok and not (isinstance(r2, list) and len(r2) == 1 and eqv(r2[0], expected))):
            return 5
    if ok:
        # serialisation: by a member that accepts the value
        try:
            d = flat.into_data(r)
        except Exception as e:
            if crosshair_exc(e):
                raise
            return 7
        # "uses a member that accepts it": the member that produced the value, or any member whose fast pass accepts it
        good = False
        try:
            if eqv(d, members[first].into_data(r)):
                good = True
        except Exception as e:
            if crosshair_exc(e):
                raise
        if not good:
            for m in members:
                ok3, _ = _try(m, r)
                if ok3:
                    try:
                        if eqv(d, m.into_data(r)):
                            good = True
                    except Exception as e:
                        if crosshair_exc(e):
                            raise
        if not good:
            return 6
        return 0 if first == 0 else -1
    return -2


for _n in UNIONS:
    for _s in (None, True, 0, 1, 2.5, 'a', 'zz', [], [1], [1, 2], (1, 2), {}, {'a': 1}, {'a': 1, 'b': 'q'}, {'a': 1, 'c': 2.0},
               [1, 'a'], {'a': 'x', 'zz': 1}, b'x'):
        try:
            check_union(_n, _s, True)
        except Exception:
            pass


_GEN = '''
@obligation(pre={pre!r}, witnesses={wit!r}, timeout={timeout}, tiers={tiers!r})
def body_u_{name}_{grp}({sig}) -> int:
    """union {name} {members}: left-most accepting member wins, spellings agree, serialisation by an accepting member ({grp})"""
    v = {builder}({args}, {vocab})
    return check_union({name!r}, v, {deep})
'''
# witnesses: which groups can reach which class
WIT = {
    'num': {'A': (0, -1, -2)}, 'num_rev': {'A': (0, -2)}, 'float_int': {'A': (0, -2)}, 'bool_int': {'A': (0, -1, -2)},
    'int_bool': {'A': (0, -2)}, 'lit_str': {'A': (0, -1, -2)}, 'str_lit': {'A': (0, -2)}, 'none_int_str': {'A': (0, -1, -2)},
    'list_tuple': {'A': (0, -2)}, 'tuple_list': {'A': (-1, -2), 'B': (0,)}, 'list_pt2': {'A': (0, -1, -2)},
    'pt2_list': {'A': (0, -2), 'B': (0,)}, 'da_db': {'A': (0, -2), 'C': (0, -1)}, 'db_da': {'A': (0, -2)},
    'dc_da': {'A': (0, -2)}, 'dict_struct': {'A': (0, -2)}, 'struct_dict': {'A': (0, -1, -2)},
    'int_list_p1': {'A': (0, -1, -2)}, 'enum_str': {'A': (0, -1, -2)}, 'listint_liststr': {'A': (0, -1, -2)},
    'vol_str': {'A': (0, -1, -2)}, 'none_vol': {'A': (0, -1, -2)}, 'enumi_str': {'A': (0, -1, -2)},
    'float_any': {'A': (0, -1)}, 'tuple_any_none': {'A': (-1,), 'B': (0,)},
    'enumnone_none': {'A': (0, -2)}, 'volopt_none_str': {'A': (0, -1, -2)},
}
for _n in UNIONS:
    _vocab = repr(VOCAB.get(_n, ('a', 'b', 'zz'))) + (', True' if _n in SMALL else '')
    _mem = ' | '.join(getattr(x, '__name__', str(x)) for x in UNIONS[_n])
    for _g in 'ABC':
        exec(_GEN.format(name=_n, grp=_g, sig=GV_SIG, args=GV_ARGS, pre=GV_PRE[_g], builder='gv', vocab=_vocab,
                         wit=WIT[_n].get(_g, ()), timeout=120, deep=repr(_g == 'A'), members=_mem,
                         tiers=('quick', 'thorough') if _g == 'A' or (_g, _n) in (('B', 'tuple_list'), ('B', 'tuple_any_none'), ('B', 'pt2_list'), ('C', 'da_db'), ('C', 'db_da'), ('C', 'dict_struct'), ('C', 'struct_dict'), ('B', 'list_pt2'), ('B', 'list_tuple'), ('C', 'dc_da')) else ('thorough',)))
    if _n in NUMERIC:
        exec(_GEN.format(name=_n, grp='F', sig=GVF_SIG, args=GVF_ARGS, pre=GVF_PRE + (' and kt != 0' if 'complex' in _mem else ''),
                         builder='gvf', vocab=repr(VOCAB.get(_n, ('a', 'b', 'zz'))),
                         wit=(), timeout=90, deep='False', members=_mem, tiers=('quick', 'thorough')))


# ------------------------------------------------------------------ serialisation does not depend on what was serialised before

HIST = {
    'lists': (t.List[int], t.List[str]),
    'dicts': (t.Dict[str, int], t.Dict[str, str]),
    'tuples': (t.Tuple[int, str], t.Tuple[str, int]),
}
HCONV = {n: make_converter(t.Union[m]) for (n, m) in HIST.items()}
HMEM = {n: tuple(make_converter(x) for x in m) for (n, m) in HIST.items()}


def hist_value(name, which, i, s):
    if len(s) > 2:
        raise OutOfBound()
    if name == 'lists':
        return [i, i] if which == 0 else [s]
    elif name == 'dicts':
        return {'k': i} if which == 0 else {'k': s}
    else:
        return (i, s) if which == 0 else (s, i)


@obligation(pre="0 <= name <= 2 and 0 <= first <= 1", witnesses=(0,), timeout=120)
def body_into_data_history(name: int, first: int, i: int, s: str) -> int:
    """serialising a union value gives the same data whatever value of the same Python type was serialised just before"""
    n = 'lists' if name == 0 else ('dicts' if name == 1 else 'tuples')
    U = HCONV[n]
    a = U.try_convert(hist_value(n, first, i, s))
    b = U.try_convert(hist_value(n, 1 - first, i, s))
    try:
        U.into_data(a)
        d = U.into_data(b)
    except Exception as e:
        if crosshair_exc(e):
            raise
        return 7
    want = HMEM[n][1 - first].into_data(b)
    if not eqv(d, want):
        return 6
    return 0


from hlib import OutOfBound
for _a in ((0, 0, 1, 'a'), (1, 1, 1, 'a'), (2, 0, 1, 'a')):
    try:
        body_into_data_history(*_a)
    except Exception:
        pass


@obligation(pre="0 <= first <= 5 and 0 <= second <= 5 and first != second", witnesses=(0,), timeout=240)
def body_generic_history(first: int, second: int) -> int:
    """the left-most member wins also inside a generic dataclass subscripted after an equal-comparing argument with the members in the other order"""
    from props import shared as _sh
    n = 0
    a = b = 0
    for k in range(6):
        if first == k:
            a = k
        if second == k:
            b = k
    return _sh.check_generic_history(a, b)



# ------------------------------------------------------------------ the member order of a nested union is part of the type

@obligation(pre="0 <= k <= 7 and 0 <= first <= 1", witnesses=(0,), timeout=120)
def body_alias_history(k: int, first: int) -> int:
    """converting to list[Union[a, b]] and then to list[Union[b, a]] (equal-comparing aliases / tuple and dict type literals, either order of use): each uses its own left-most accepting member"""
    from props import shared as _sh
    return _sh.alias_history(0 if k == 0 else (1 if k == 1 else (2 if k == 2 else (3 if k == 3 else (4 if k == 4 else (5 if k == 5 else (6 if k == 6 else 7)))))), first)


for _k in range(8):
    try:
        body_alias_history(_k, 0)
    except Exception:
        pass


# ------------------------------------------------------------------ member order after type-variable substitution

_TU = t.TypeVar('_TU')


class GU(PaneBase, t.Generic[_TU]):
    """unions that contain the type variable: substitution flattens them, keeping the FIRST occurrence of a repeated member"""
    f: t.Union[float, _TU] = 0.0
    g: t.Union[complex, _TU, None] = None
    h: t.Union[_TU, str] = ''
    l: t.List[t.Union[float, _TU]] = field(default_factory=list)


GU_INST = (GU[t.Union[int, float]], GU[t.Union[int, str]], GU[t.Optional[t.Union[float, complex]]], GU[int],
           GU[t.Union[float, int]], GU[t.Union[str, int]])        # ... and the other member order, subscripted AFTER the first
# the flattened member order, written by hand
GU_MEMBERS = (
    dict(f=(float, int), g=(complex, int, float, NoneT), h=(int, float, str), l=(float, int)),
    dict(f=(float, int, str), g=(complex, int, str, NoneT), h=(int, str), l=(float, int, str)),
    dict(f=(float, complex, NoneT), g=(complex, float, NoneT), h=(float, complex, NoneT, str), l=(float, complex, NoneT)),
    dict(f=(float, int), g=(complex, int, NoneT), h=(int, str), l=(float, int)),
    dict(f=(float, int), g=(complex, float, int, NoneT), h=(float, int, str), l=(float, int)),
    dict(f=(float, str, int), g=(complex, str, int, NoneT), h=(str, int), l=(float, str, int)),
)
for _c in GU_INST:
    make_converter(_c)
GU_MCONV = {ty: make_converter(ty) for ty in (float, int, str, complex, NoneT)}


@obligation(pre="0 <= gi <= 5 and 0 <= fsel <= 3 and 0 <= k <= 4", witnesses=(0, -1), timeout=200)
def body_substituted_union(gi: int, fsel: int, k: int, i: int) -> int:
    """a union that mentions a type variable, after substitution by a union sharing members with it: still the left-most accepting member of the FLATTENED declaration order"""
    cls = GU_INST[0] if gi == 0 else (GU_INST[1] if gi == 1 else (GU_INST[2] if gi == 2 else (GU_INST[3] if gi == 3 else (GU_INST[4] if gi == 4 else GU_INST[5]))))
    mem = GU_MEMBERS[0] if gi == 0 else (GU_MEMBERS[1] if gi == 1 else (GU_MEMBERS[2] if gi == 2 else (GU_MEMBERS[3] if gi == 3 else (GU_MEMBERS[4] if gi == 4 else GU_MEMBERS[5]))))
    fname = 'f' if fsel == 0 else ('g' if fsel == 1 else ('h' if fsel == 2 else 'l'))
    from hlib import lf as _lf
    v = _lf(k, i, 'ab', True)
    expected = None
    found = False
    for ty in mem[fname]:
        ok, r = _try(GU_MCONV[ty], v)
        if ok and not found:
            found = True
            expected = r
    try:
        x = cls.from_data({fname: [v] if fname == 'l' else v})
        got = getattr(x, fname)
        if fname == 'l':
            got = got[0]
        ok = True
    except pane.ConvertError:
        ok = False
    except Exception as e:
        if crosshair_exc(e):
            raise
        return 10
    if ok != found:
        return 1 if ok else 2
    if ok and not eqv(got, expected):
        return 4
    return 0 if ok else -1


for _g in range(6):
    for _f in range(4):
        for _k in range(5):
            try:
                body_substituted_union(_g, _f, _k, 1)
            except Exception:
                pass
