"""C15 harness: dataclass data layouts and field-name resolution.

Oracle: the decision table of the property + the documented derivation of input/output names, written here by hand per
class (REF tables) -- not read from pane's Field objects.
Verdict codes: 1 accepted although the decision table rejects (unknown key, duplicate, missing required, layout not enabled,
wrong carrier, length out of range); 2 rejected although the table accepts; 4 a key/position was bound to the wrong field;
5 output layout / output names / exclusion wrong; 6 output does not read back; 10 unexpected exception.
Witness classes: 0 accepted, -1 rejected.
"""
import typing as t
from typing import List, Optional

import pane
from pane import PaneBase, field, KW_ONLY
from pane.convert import make_converter
from pane.errors import ConvertError

from hlib import obligation, crosshair_exc, eqv, OutOfBound


class N1(PaneBase):
    a: int
    b: int = 0


class N2(PaneBase):
    a_b: int = field(aliases=('ab', 'AB'))
    c: int = field(in_names=('cee', 'C'), default=0)
    d: int = field(rename='dee', default=0)
    e: int = field(out_name='E', default=0)
    f: int = field(rename='eff', out_name='F', default=0)      # an explicit out_name wins over rename


class N3(PaneBase, rename='camel'):
    foo_bar: int
    baz: int = 0
    qux_x: int = field(aliases=('qx',), default=0)
    r_f: int = field(rename='r_name', default=0)        # an explicit rename= is used verbatim, not re-styled


class N4(PaneBase, in_rename=('snake', 'kebab'), out_rename='kebab'):
    foo_bar: int
    baz: int = 0


class N5(PaneBase, allow_extra=True):
    a: int
    b: int = field(default=0, exclude=True)


class N6(PaneBase, in_format=('tuple',), out_format='tuple'):
    a: int
    b: int = 0
    c: str = field(init=False, default='nine')      # not an int: a mis-aligned positional binding shows
    d: int = 1
    _: KW_ONLY
    k: int = 0


class N7(PaneBase, in_format=('struct', 'tuple'), out_format='tuple'):
    a: int
    b: int = 0
    x: int = field(default=5, exclude=True)


class N9(PaneBase, in_format=('tuple', 'struct'), out_format='tuple'):
    """positional fields with a default_factory are optional in the tuple layout"""
    a: int
    b: t.List[int] = field(default_factory=list)
    c: int = 0


class N10B(PaneBase, in_format=('tuple',), out_format='tuple'):
    a: int
    _: KW_ONLY
    k: str = 'kay'


class N10(N10B):
    """an inherited keyword-only field precedes a positional field added by the subclass (different types)"""
    b: int = 0
    m: str = field(kw_only=True, default='em')
    c: int = 2


class N11(PaneBase, in_rename=('snake', 'camel'), out_rename='scream'):
    """input and output styles differ; one field has aliases, one does not, one is renamed explicitly (verbatim)"""
    retry_count: int = field(aliases=('retries',), default=0)
    item_list: int = 0
    max_depth: int = field(rename='maxd', default=0)


class N12(PaneBase, out_rename='camel'):
    """only an output style"""
    retry_count: int = field(aliases=('retries',), default=0)
    item_list: int = 0


_TB15 = t.TypeVar('_TB15')


class GBox15(PaneBase, t.Generic[_TB15]):
    item_value: _TB15
    item_count: int = 0


class N13(GBox15[int], rename='kebab'):
    """an ordinary subclass of a SPECIALISATION of a generic class: its own rename style and a new aliased field"""
    extra_tag: int = field(default=0, aliases=('xt',))


class N8(PaneBase, in_format=('struct',), out_format='struct'):
    """struct only: sequences are refused"""
    a: int = 0


# REF[cls] = (fields, options); field = (python name, input names, output name, required, positional?, init, exclude)
REF = {
    N1: ((('a', ('a',), 'a', True, True, True, False), ('b', ('b',), 'b', False, True, True, False)),
         dict(allow_extra=False, in_format=('struct',), out_format='struct')),
    N2: ((('a_b', ('a_b', 'ab', 'AB'), 'a_b', True, True, True, False),
          ('c', ('c', 'cee', 'C'), 'c', False, True, True, False),
          ('d', ('d', 'dee'), 'dee', False, True, True, False),
          ('e', ('e',), 'E', False, True, True, False),
          ('f', ('f', 'eff'), 'F', False, True, True, False)),
         dict(allow_extra=False, in_format=('struct',), out_format='struct')),
    N3: ((('foo_bar', ('foo_bar', 'fooBar'), 'fooBar', True, True, True, False),
          ('baz', ('baz',), 'baz', False, True, True, False),
          ('qux_x', ('qux_x', 'quxX', 'qx'), 'quxX', False, True, True, False),
          ('r_f', ('r_f', 'r_name'), 'r_name', False, True, True, False)),
         dict(allow_extra=False, in_format=('struct',), out_format='struct')),
    N4: ((('foo_bar', ('foo_bar', 'foo-bar'), 'foo-bar', True, True, True, False),
          ('baz', ('baz',), 'baz', False, True, True, False)),
         dict(allow_extra=False, in_format=('struct',), out_format='struct')),
    N5: ((('a', ('a',), 'a', True, True, True, False), ('b', ('b',), 'b', False, True, True, True)),
         dict(allow_extra=True, in_format=('struct',), out_format='struct')),
    N6: ((('a', ('a',), 'a', True, True, True, False), ('b', ('b',), 'b', False, True, True, False),
          ('c', ('c',), 'c', False, True, False, False), ('d', ('d',), 'd', False, True, True, False),
          ('k', ('k',), 'k', False, False, True, False)),
         dict(allow_extra=False, in_format=('tuple',), out_format='tuple')),
    N7: ((('a', ('a',), 'a', True, True, True, False), ('b', ('b',), 'b', False, True, True, False),
          ('x', ('x',), 'x', False, True, True, True)),
         dict(allow_extra=False, in_format=('struct', 'tuple'), out_format='tuple')),
    N9: ((('a', ('a',), 'a', True, True, True, False), ('b', ('b',), 'b', False, True, True, False),
          ('c', ('c',), 'c', False, True, True, False)),
         dict(allow_extra=False, in_format=('tuple', 'struct'), out_format='tuple')),
    N8: ((('a', ('a',), 'a', False, True, True, False),),
         dict(allow_extra=False, in_format=('struct',), out_format='struct')),
    # keyword-only fields come after the positional ones, in declaration order within each group
    N10: ((('a', ('a',), 'a', True, True, True, False), ('b', ('b',), 'b', False, True, True, False),
           ('c', ('c',), 'c', False, True, True, False), ('k', ('k',), 'k', False, False, True, False),
           ('m', ('m',), 'm', False, False, True, False)),
          dict(allow_extra=False, in_format=('tuple',), out_format='tuple')),
    N11: ((('retry_count', ('retry_count', 'retryCount', 'retries'), 'RETRY_COUNT', False, True, True, False),
           ('item_list', ('item_list', 'itemList'), 'ITEM_LIST', False, True, True, False),
           ('max_depth', ('max_depth', 'maxd'), 'maxd', False, True, True, False)),
          dict(allow_extra=False, in_format=('struct',), out_format='struct')),
    N13: ((('item_value', ('item_value', 'item-value'), 'item-value', True, True, True, False),
           ('item_count', ('item_count', 'item-count'), 'item-count', False, True, True, False),
           ('extra_tag', ('extra_tag', 'extra-tag', 'xt'), 'extra-tag', False, True, True, False)),
          dict(allow_extra=False, in_format=('struct',), out_format='struct')),
    N12: ((('retry_count', ('retry_count', 'retries'), 'retryCount', False, True, True, False),
           ('item_list', ('item_list',), 'itemList', False, True, True, False)),
          dict(allow_extra=False, in_format=('struct',), out_format='struct')),
}
DEFAULT = {N1: {'b': 0}, N2: {'c': 0, 'd': 0, 'e': 0, 'f': 0}, N3: {'baz': 0, 'qux_x': 0, 'r_f': 0}, N4: {'baz': 0}, N5: {'b': 0},
           N6: {'b': 0, 'c': 'nine', 'd': 1, 'k': 0}, N10: {'b': 0, 'c': 2, 'k': 'kay', 'm': 'em'},
           N11: {'retry_count': 0, 'item_list': 0, 'max_depth': 0}, N12: {'retry_count': 0, 'item_list': 0},
           N13: {'item_count': 0, 'extra_tag': 0}, N7: {'b': 0, 'x': 5}, N8: {'a': 0}, N9: {'b': [], 'c': 0}}
# key vocabulary per class: every name the class can distinguish in some style + foreign keys
VOCAB = {
    N1: ('a', 'b', 'A', 'zz'),
    N2: ('a_b', 'ab', 'AB', 'aB', 'c', 'cee', 'C', 'd', 'dee', 'e', 'E', 'f', 'eff', 'F', 'zz'),
    N3: ('foo_bar', 'fooBar', 'FooBar', 'foo-bar', 'baz', 'qux_x', 'quxX', 'qx', 'r_f', 'r_name', 'rName', 'zz'),
    N4: ('foo_bar', 'foo-bar', 'fooBar', 'FOO_BAR', 'baz', 'zz'),
    N5: ('a', 'b', 'zz', 'yy'),
    N6: ('a', 'b', 'c', 'k'),
    N7: ('a', 'b', 'x', 'zz'),
    N8: ('a', 'zz'),
    N9: ('a', 'b', 'c'),
    N10: ('a', 'b', 'c', 'k', 'm'),
    N11: ('retry_count', 'retryCount', 'RETRY_COUNT', 'retries', 'item_list', 'itemList', 'ITEM_LIST', 'max_depth', 'maxd', 'md', 'maxDepth', 'MAXD', 'zz'),
    N12: ('retry_count', 'retryCount', 'retries', 'item_list', 'itemList', 'zz'),
    N13: ('item_value', 'item-value', 'itemValue', 'item_count', 'item-count', 'extra_tag', 'extra-tag', 'xt', 'zz'),
}
for _c in REF:
    make_converter(_c)


def pick(cls, sel):
    n = 0
    for k in VOCAB[cls]:
        if n == sel:
            return k
        n += 1
    return None


def owner(cls, key):
    for f in REF[cls][0]:
        if f[5] and key in f[1]:
            return f[0]
    return None


def check_output(cls, x):
    (fields, opts) = REF[cls]
    try:
        d = x.into_data()
    except Exception as e:
        if crosshair_exc(e):
            raise
        return 5
    live = [f for f in fields if not f[6]]
    if opts['out_format'] == 'tuple':
        if not isinstance(d, tuple) or len(d) != len(live):
            return 5
        for (f, y) in zip(live, d):
            if not eqv(y, getattr(x, f[0])):
                return 5
    else:
        if not isinstance(d, dict) or len(d) != len(live):
            return 5
        for f in live:
            if f[2] not in d or not eqv(d[f[2]], getattr(x, f[0])):
                return 5
    return 0


def check_mapping(cls, d):
    (fields, opts) = REF[cls]
    want = 'struct' in opts['in_format']
    bound = {}
    for k in d:
        o = owner(cls, k)
        if o is None:
            if not opts['allow_extra']:
                want = False
        elif o in bound:
            want = False                       # two keys naming the same field
        else:
            bound[o] = d[k]
    for f in fields:
        if f[3] and f[5] and f[0] not in bound:
            want = False
    try:
        x = cls.from_data(d)
        ok = True
    except ConvertError:
        ok = False
    except Exception as e:
        if crosshair_exc(e):
            raise
        return 10
    if ok and not want:
        return 1
    if want and not ok:
        return 2
    if not ok:
        return -1
    for f in fields:
        exp = bound[f[0]] if f[0] in bound else DEFAULT[cls][f[0]]
        if not eqv(getattr(x, f[0]), exp):
            return 4
    c = check_output(cls, x)
    if c:
        return c
    # read-back only where the output form is enabled on input (layout enabled, every output name is an input name)
    if opts['out_format'] in opts['in_format'] and not any(f[6] for f in fields) and all(f[2] in f[1] for f in fields):
        try:
            y = cls.from_data(x.into_data())
        except Exception as e:
            if crosshair_exc(e):
                raise
            return 6
        if not eqv(x, y):
            return 6
    return 0


def check_sequence(cls, v, n, real_seq):
    (fields, opts) = REF[cls]
    pos = [f for f in fields if f[4] and f[5]]
    req = len([f for f in pos if f[3]])
    want = real_seq and 'tuple' in opts['in_format'] and req <= n <= len(pos)
    try:
        x = cls.from_data(v)
        ok = True
    except ConvertError:
        ok = False
    except Exception as e:
        if crosshair_exc(e):
            raise
        return 10
    if ok and not want:
        return 1
    if want and not ok:
        return 2
    if not ok:
        return -1
    i = 0
    for f in fields:
        if f in pos and i < n:
            exp = v[i]
            i += 1
        else:
            exp = DEFAULT[cls][f[0]]
        if not eqv(getattr(x, f[0]), exp):
            return 4
    return check_output(cls, x)


_MAP = '''
@obligation(pre="0 <= y1 <= {nv} and 0 <= y2 <= {nv} and 0 <= y3 <= {nv3} and 0 <= nk <= 3", witnesses=(0, -1), timeout=240)
def body_map_{name}(nk: int, y1: int, y2: int, y3: int, i1: int, i2: int, i3: int) -> int:
    """{name}: mapping keys chosen by the solver from every name the class could know, in every style, plus foreign keys"""
    d = {{}}
    if nk >= 1:
        d[pick({name}, y1)] = i1
    if nk >= 2:
        k2 = pick({name}, y2)
        if k2 in d:
            return -99
        d[k2] = i2
    if nk >= 3:
        k3 = pick({name}, y3)
        if k3 in d:
            return -99
        d[k3] = i3
    return check_mapping({name}, d)
'''
for _c in (N1, N2, N3, N4, N5, N7, N8, N11, N12, N13):
    _nv = len(VOCAB[_c]) - 1
    exec(_MAP.format(name=_c.__name__, nv=_nv, nv3=min(_nv, 3)))


def carrier(ck, xs):
    """carrier kinds: 0 list | 1 tuple | 2 str | 3 bytes | 4 dict with positional-looking keys | 5 bytearray"""
    if ck == 0:
        return list(xs), True
    elif ck == 1:
        return tuple(xs), True
    elif ck == 2:
        return 'ab'[:len(xs)] if len(xs) <= 2 else 'abcd'[:len(xs)], False
    elif ck == 3:
        return b'abcdef'[:len(xs)], False
    elif ck == 4:
        return {0: 1, 1: 2}, False
    else:
        return bytearray(b'abcdef'[:len(xs)]), False


_SEQ = '''
@obligation(pre="0 <= n <= {maxn} and 0 <= ck <= 5", witnesses={wit}, timeout=120)
def body_seq_{name}(n: int, ck: int, i1: int, i2: int, i3: int, i4: int, i5: int) -> int:
    """{name}: sequence of symbolic length and carrier kind binds positionally to the non-keyword-only init fields"""
    xs = []
    if n >= 1:
        xs.append(i1)
    if n >= 2:
        xs.append(i2)
    if n >= 3:
        xs.append(i3)
    if n >= 4:
        xs.append(i4)
    if n >= 5:
        xs.append(i5)
    v, real = carrier(ck, xs)
    if ck == 4:
        return -99 if 'struct' in REF[{name}][1]['in_format'] else check_sequence({name}, v, n, False)
    return check_sequence({name}, v, n, real)
'''
for _c in (N6, N7, N1, N8, N10):
    exec(_SEQ.format(name=_c.__name__, maxn=5 if _c is N6 else 4, wit=(0, -1) if _c in (N6, N7, N10) else (-1,)))


@obligation(pre="0 <= n <= 4 and 0 <= ck <= 1", witnesses=(0, -1), timeout=120)
def body_seq_N9(n: int, ck: int, i1: int, i2: int, i3: int) -> int:
    """N9: a positional field with a default_factory may be omitted from a sequence (length between required and total)"""
    xs = []
    if n >= 1:
        xs.append(i1)
    if n >= 2:
        xs.append([i2])
    if n >= 3:
        xs.append(i3)
    if n >= 4:
        xs.append(0)
    v, real = carrier(ck, xs)
    return check_sequence(N9, v, n, real)

for _c in REF:
    for _d in ({'a': 1}, {}, {'a': 1, 'zz': 2}, {'foo_bar': 1}, {'fooBar': 1, 'foo_bar': 2}, {'a_b': 1, 'ab': 2}, {'foo-bar': 1}):
        try:
            check_mapping(_c, _d)
        except Exception:
            pass
    for _v in ([1], [1, 2], (1, 2, 3), [], 'ab', [1, 2, 3, 4, 5]):
        try:
            check_sequence(_c, _v, len(_v), isinstance(_v, (list, tuple)))
        except Exception:
            pass
