"""C12 -- tagged unions dispatch on the tag alone; layouts are symmetric."""
import os

HERE = os.path.dirname(os.path.abspath(__file__))


def harness_files(tier, seed):
    return [os.path.join(HERE, 'hC12.py')]


META = dict(
    bounds="mappings built from symbolic parts: tag presence and kind (each declared tag, foreign str/int, None, list, dict), "
           "body with optional fields a (leaf of 6 kinds), b, an extra key, or a non-mapping body; layout malformations "
           "(missing/extra top-level keys, wrong key, non-mapping value); near-valid fault budget: the body varies only under a "
           "declared tag in a well-formed layout",
    configs="7 variant sets (str tags with two variants sharing the same body; int tags; mixed-kind tags; a variant subclassing another; a None tag; the "
            "same union under a second adjacent key pair; a trailing condition) x 3 layouts; tagged unions wrapped in Optional/Union/Dict/Tuple/a field/a container inside a union; duplicate-tag type building enumerated (6 types)",
    stubs=[],
    outside=["bool/float tag values that compare equal to an int tag (True == 1): not judged",
             "rendered error text only for concrete bodies (rendering realises symbolic leaves)"],
    assumptions=["oracle: the variant's own converter built separately; layout shapes from docs/using/advanced.md"],
)
