"""C11 -- untagged unions: the left-most accepting member wins."""
import os

HERE = os.path.dirname(os.path.abspath(__file__))


def harness_files(tier, seed):
    return [os.path.join(HERE, 'hC11.py')]


META = dict(
    bounds="generic depth-1 interchange values (hlib.gv): leaf | list len<=2 | dict <=2 keys | 2-tuple | [[A],B] | {k:[A]}; "
           "symbolic float at top / in a list / in a dict for the numeric unions",
    configs="27 overlap-rich unions (members left of None that accept None, int/float/complex in both orders, bool/int, Literal/str, list/tuple/tuple-layout dataclass, "
            "dataclasses sharing field names, dict/struct, enum/str) x spellings (typing-flattened, nested UnionConverter, "
            "Optional[..], Union[None, ..], inside List) + serialisation / alias-order / generic-subscription histories + unions mentioning a type variable after substitution (4 instantiations)",
    stubs=[],
    outside=["unions of more than 4 members", "PEP 604 X | Y spelling (types.UnionType has no converter: TypeError at build time)"],
    assumptions=["oracle: each member's own converter, built separately by make_converter"],
)
