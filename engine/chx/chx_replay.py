"""Concrete (untraced) replay of a harness body call.  Used by the replay scripts the driver writes."""
import importlib
import importlib.util
import json
import os
import sys

REPO = os.environ.get('VERIF_REPO') or '/repo'


def _load_body(pid, tier, seed, srcbase, body):
    prop = importlib.import_module(f'props.{pid}')
    files = prop.harness_files(tier, seed)
    src = next((f for f in files if os.path.basename(f) == srcbase), None)
    if src is None:
        raise SystemExit(f"replay: harness {srcbase} not generated for tier={tier} seed={seed}")
    name = 'H_' + os.path.splitext(srcbase)[0]
    spec = importlib.util.spec_from_file_location(name, src)
    mod = importlib.util.module_from_spec(spec)
    sys.modules[name] = mod
    spec.loader.exec_module(mod)
    return getattr(mod, body)


def replay(pid, tier, seed, srcbase, body, call):
    """`call` is CrossHair's printed call, e.g. "ob_x(k=1, f=float('nan'))"; only its arguments are used."""
    os.environ.setdefault('VERIF_TIER', tier)
    os.environ['VERIF_SEED'] = str(seed)
    import hlib
    f = _load_body(pid, tier, seed, srcbase, body)
    argsrc = call[call.index('('):]
    ns = {'float': float, 'nan': float('nan'), 'inf': float('inf')}

    def _capture(*a, **kw):
        return a, kw
    ns['_capture'] = _capture
    a, kw = eval('_capture' + argsrc, ns)
    funcs = set()
    if os.environ.get('CHX_TRACE_FUNCS'):
        def prof(frame, event, arg):
            if event == 'call':
                fn = frame.f_code.co_filename
                if fn.startswith(REPO + '/pane/'):
                    funcs.add(fn[len(REPO) + 1:-3].replace('/', '.') + ':' + frame.f_code.co_qualname)
        sys.setprofile(prof)
    try:
        code = hlib.guard(f, *a, **kw)
    finally:
        sys.setprofile(None)
    try:
        code = int(code)
    except Exception:
        pass
    print(f"REPLAY code={code}")
    if funcs:
        print("FUNCS " + json.dumps(sorted(funcs)))
    return 1 if (isinstance(code, int) and code > 0) else 0
