"""C02 harness: strictness -- no coercion across value kinds, in every embedding context.

For every (target kind, context) the value's KIND is a symbolic selector over 14 kinds with symbolic content; the
conversion must be accepted exactly when the (value kind, target kind) cell is in the allowed relation ALLOWED below,
written out literally from the property statement and docs/using/basic.md:
identity, plus the lossless widenings int -> float -> complex, bool as int (a bool IS an int; the forbidden direction is
"an arbitrary int as a bool"), bytes <-> bytearray, sequence kinds among themselves, mapping kinds among themselves.
Verdict codes: 1 accepted across kinds (coercion); 2 rejected although the kind is allowed; 3 harness;
4 accepted value changed kind beyond the documented widening; 5 raw exception.
Witness classes: 0 accepted, -1 rejected.
"""
import collections
import collections.abc
import enum
import typing as t
from typing import Literal, Optional, List

import pane
from pane import PaneBase
from pane.annotations import Condition
from pane.convert import make_converter
from pane.errors import ConvertError

from hlib import obligation, crosshair_exc, OutOfBound, cint


class MiniMap(collections.abc.Mapping):
    def __init__(self, d):
        self._d = dict(d)

    def __getitem__(self, k):
        return self._d[k]

    def __iter__(self):
        return iter(self._d)

    def __len__(self):
        return len(self._d)


class ES(enum.Enum):
    A = 'a'
    B = 'b'


class EI(enum.Enum):
    ONE = 1
    TWO = 2


class DS(PaneBase):
    a: int = 0


class DT(PaneBase, in_format=('tuple',)):
    a: int = 0
    b: str = 'x'


class DTI(PaneBase, in_format=('tuple',)):
    label: str = pane.field(init=False, default='pt')
    n: int = 0


class DST(PaneBase, in_format=('struct', 'tuple')):
    a: str = 'p'
    b: str = 'q'


# value kinds
KINDS = ('none', 'bool', 'int', 'float', 'complex', 'str', 'bytes', 'bytearray', 'list', 'tuple', 'dict', 'mapping', 'strsub', 'bytessub')


class StrVal(str):
    """a VALUE whose type is a subclass of str (e.g. a (str, Enum) member, numpy.str_): still a string, never a sequence"""


class BytesVal(bytes):
    pass
NUM = {'bool', 'int'}

# target -> (type, allowed value kinds, valid list content, valid mapping content)
TARGETS = {
    'int': (int, {'bool', 'int'}),
    'float': (float, {'bool', 'int', 'float'}),
    'complex': (complex, {'bool', 'int', 'float', 'complex'}),
    'bool': (bool, {'bool'}),
    'str': (str, {'str', 'strsub'}),
    'bytes': (bytes, {'bytes', 'bytearray', 'bytessub'}),
    'bytearray': (bytearray, {'bytes', 'bytearray', 'bytessub'}),
    'none': (type(None), {'none'}),
    'list': (t.List[t.Any], {'list', 'tuple'}),
    'list_str': (t.List[str], {'list', 'tuple'}),
    'tuple_var': (t.Tuple[t.Any, ...], {'list', 'tuple'}),
    'tuple_2': (t.Tuple[t.Any, t.Any], {'list', 'tuple'}),
    'set': (t.Set[t.Any], {'list', 'tuple'}),
    'seq': (t.Sequence[str], {'list', 'tuple'}),
    'dict': (t.Dict[t.Any, t.Any], {'dict', 'mapping'}),
    'dict_str': (t.Dict[str, str], {'dict', 'mapping'}),
    'struct': ({'a': t.Any, 'b': t.Any}, {'dict', 'mapping'}),
    'tuple_lit': ((t.Any, t.Any), {'list', 'tuple'}),
    'dc_struct': (DS, {'dict', 'mapping'}),
    'dc_tuple': (DT, {'list', 'tuple'}),
    'dc_tuple_if': (DTI, {'list', 'tuple'}),        # init=False field first: positions bind to the init fields only
    'dc_both': (DST, {'list', 'tuple', 'dict', 'mapping'}),
    'lit_str': (Literal['a', 'b'], {'str', 'strsub'}),
    'enum_str': (ES, {'str', 'strsub'}),
    'counter': (collections.Counter, {'dict', 'mapping'}),     # bare Counter: keys Any, values int
    'enum_int': (EI, {'bool', 'int'}),        # a bool is an int: True == 1 selects EI.ONE
}


def value(kind, target, i, f, s, alt):
    """a value of kind `kind` (selector 0..11) whose CONTENT is valid for `target` whenever the kind could be accepted,
    so that acceptance depends on the kind alone"""
    if kind == 0:
        return None
    elif kind == 1:
        if target == 'enum_int':
            return True                     # the only bool that equals a member value (1)
        return True if i > 0 else False
    elif kind == 2:
        if target in ('float', 'complex', 'enum_int'):
            return 1 if i > 0 else 2       # float()/complex() of a symbolic int is modelled inexactly
        return i
    elif kind == 3:
        if target == 'complex':
            return 1.5 if alt else float('nan')      # complex(symbolic float) is realised without end by CrossHair
        return f
    elif kind == 4:
        return complex(1, 2) if alt else complex(0, 0)
    elif kind == 5:
        if target in ('lit_str', 'enum_str'):
            return 'a' if alt else 'b'
        if len(s) > 2:
            raise OutOfBound()
        return s
    elif kind == 6:
        return b'ab' if alt else b''
    elif kind == 7:
        return bytearray(b'ab') if alt else bytearray(b'')
    elif kind == 12:
        return StrVal('a' if alt else 'b') if target in ('lit_str', 'enum_str') else StrVal('pq')
    elif kind == 13:
        return BytesVal(b'ab')
    elif kind == 8 or kind == 9:
        if target == 'dc_tuple_if':
            xs = [5] if alt else []
        elif target == 'dc_tuple':
            xs = [1, 'y'] if alt else [1]
        else:
            xs = ['p', 'q']
        return xs if kind == 8 else tuple(xs)
    else:
        if target == 'counter':
            d = {'a': 1, 'b': 2}
        elif target == 'dc_struct':
            d = {'a': 1} if alt else {}
        else:
            d = {'a': 'p', 'b': 'q'}
        return d if kind == 10 else MiniMap(d)


def _always(v):
    return True


class _Never(enum.Enum):
    X = '__never__'


def wrap_type(ctx, T):
    if ctx == 'top':
        return T
    elif ctx == 'list':
        return t.List[T] if _hashable(T) else None
    elif ctx == 'tuple':
        return (int, T)
    elif ctx == 'dictval':
        return {'k': T}
    elif ctx == 'mapval':
        return t.Dict[str, T] if _hashable(T) else None
    elif ctx == 'mapval_anykey':
        return t.Dict[t.Any, T] if _hashable(T) else None
    elif ctx == 'union':
        return t.Union[_Never, T] if _hashable(T) else None
    elif ctx == 'optional':
        return Optional[T] if _hashable(T) else None
    elif ctx == 'field':
        return None   # built below
    elif ctx == 'annotated':
        return t.Annotated[T, Condition(_always, 'always')] if _hashable(T) else None
    raise KeyError(ctx)


def _hashable(T):
    """can T be an argument of a typing generic?  (struct / tuple type literals cannot)"""
    return not isinstance(T, (tuple, dict))


def wrap_value(ctx, v):
    if ctx in ('top', 'union', 'optional', 'annotated'):
        return v
    elif ctx == 'list':
        return [v]
    elif ctx == 'tuple':
        return (1, v)
    elif ctx in ('dictval', 'mapval', 'mapval_anykey'):
        return {'k': v}
    elif ctx == 'field':
        return {'f': v}
    elif ctx == 'field_pos':
        return [v]
    raise KeyError(ctx)


def unwrap(ctx, r):
    if ctx in ('top', 'union', 'optional', 'annotated'):
        return r
    elif ctx == 'list':
        return r[0]
    elif ctx == 'tuple':
        return r[1]
    elif ctx in ('dictval', 'mapval', 'mapval_anykey'):
        return r['k']
    else:
        return r.f


CONTEXTS = ('top', 'list', 'tuple', 'dictval', 'mapval', 'mapval_anykey', 'union', 'optional', 'field', 'field_pos', 'annotated')
CTYPE = {}
for (_tn, (_T, _allowed)) in TARGETS.items():
    for _c in CONTEXTS:
        if _c in ('field', 'field_pos'):
            _ns = {'__annotations__': {'f': _T}}
            _cls = None
            exec(f"class F_{_tn}_{_c}(PaneBase, in_format={('struct',) if _c == 'field' else ('tuple',)!r}):\n    __annotations__ = {{'f': _T}}\n",
                 {'PaneBase': PaneBase, '_T': _T}, _ns)
            W = _ns[f'F_{_tn}_{_c}']
        else:
            W = wrap_type(_c, _T)
        if W is None:
            continue
        CTYPE[(_tn, _c)] = W
        try:
            make_converter(W)
        except Exception:
            pass


def kind_name(kind):
    n = 0
    for k in KINDS:
        if n == kind:
            return k
        n += 1
    return None


def check_cell(tn, ctx, kind, v):
    (T, allowed) = TARGETS[tn]
    W = CTYPE[(tn, ctx)]
    kn = kind_name(kind)
    want = kn in allowed
    if ctx == 'optional' and kn == 'none':
        want = True
    try:
        r = pane.from_data(wrap_value(ctx, v), W)
    except ConvertError:
        return 2 if want else -1
    except Exception as e:
        if crosshair_exc(e):
            raise
        return 5
    if not want:
        return 1
    return 0


for (_k, _W) in CTYPE.items():
    for _kind in range(14):
        for _alt in (False, True):
            try:
                check_cell(_k[0], _k[1], _kind, value(_kind, _k[0], 1, 1.5, 'a', _alt))
            except Exception:
                pass

_T_ = '''
@obligation(pre="0 <= kind <= 13 and {fpre}", witnesses=(0, -1), timeout=90, tiers={tiers!r})
def body_cell_{tn}_{ctx}(kind: int, i: int, f: float, s: str, alt: bool) -> int:
    """strictness matrix: target kind {tn} in context {ctx} accepts exactly the allowed value kinds"""
    return check_cell({tn!r}, {ctx!r}, kind, value(kind, {tn!r}, i, f, s, alt))
'''
# quick: all targets at top level and as dataclass fields (both layouts) + the scalar targets in every context;
# thorough: the full matrix
_SCALAR = {'int', 'float', 'bool', 'str', 'none', 'bytes'}
for (_tn, _c) in CTYPE:
    quick = _c in ('top', 'field', 'field_pos') or (_tn in _SCALAR) or (_c == 'mapval_anykey' and _tn in ('list_str', 'dict_str', 'dc_struct', 'complex')) or (_tn in ('dc_tuple', 'dc_tuple_if', 'dc_both', 'list_str') and _c in ('union', 'list'))
    # complex(): a symbolic float argument is realised without end -> concrete float for that target
    fpre = "True"
    exec(_T_.format(tn=_tn, ctx=_c, fpre=fpre, tiers=('quick', 'thorough') if quick else ('thorough',)))


# ------------------------------------------------------------------ a field WITH a default is as strict as one without

class DD(PaneBase):
    i: int = 3
    s: str = 's'
    f: float = 1.0
    b: bool = False
    xs: t.List[int] = pane.field(default_factory=list)
    m: t.Dict[str, int] = pane.field(default_factory=dict)
    o: Optional[int] = 5


make_converter(DD)
DD_ALLOWED = {'i': {'bool', 'int'}, 's': {'str', 'strsub'}, 'f': {'bool', 'int', 'float'}, 'b': {'bool'}, 'xs': {'list', 'tuple'},
              'm': {'dict', 'mapping'}, 'o': {'none', 'bool', 'int'}}


@obligation(pre="0 <= kind <= 13 and 0 <= fsel <= 6", witnesses=(0, -1), timeout=120)
def body_defaulted_field(fsel: int, kind: int, i: int, f: float, s: str, alt: bool) -> int:
    """a dataclass field that has a default accepts exactly the kinds its type allows (None only where None is allowed)"""
    name = 'i' if fsel == 0 else ('s' if fsel == 1 else ('f' if fsel == 2 else ('b' if fsel == 3 else ('xs' if fsel == 4 else ('m' if fsel == 5 else 'o')))))
    tgt = 'float' if name == 'f' else ('dc_tuple' if name == 'xs' else ('dc_struct' if name == 'm' else 'int'))
    v = value(kind, tgt, i, f, s, alt)
    if name == 'xs' and kind in (8, 9):
        v = [1] if kind == 8 else (1,)
    if name == 'o' and kind == 2:
        v = i
    want = kind_name(kind) in DD_ALLOWED[name]
    try:
        DD.from_data({name: v})
        ok = True
    except ConvertError:
        ok = False
    except Exception as e:
        if crosshair_exc(e):
            raise
        return 5
    if ok and not want:
        return 1
    if want and not ok:
        return 2
    return 0 if ok else -1


# ------------------------------------------------------------------ strictness through a generic dataclass nested in typing constructs

from hlib import lf as _lf
from pane import field

_TS = t.TypeVar('_TS')


class GBx(PaneBase, t.Generic[_TS]):
    value: _TS


class GSh(PaneBase, t.Generic[_TS]):
    """the element type reaches the inner generic dataclass only through List / Optional / Dict / Tuple / Union"""
    boxes: t.List[GBx[_TS]] = field(default_factory=list)
    opt: t.Optional[GBx[_TS]] = None
    m: t.Dict[str, GBx[_TS]] = field(default_factory=dict)
    tup: t.Optional[t.Tuple[GBx[_TS], int]] = None
    un: t.Union[None, str, GBx[_TS]] = None
    direct: t.Optional[GBx[_TS]] = None


GSH = (GSh[int], GSh[str], GSh[float])
for _c in GSH:
    make_converter(_c)


@obligation(pre="0 <= gi <= 2 and 0 <= ctx <= 5 and 0 <= k <= 5", witnesses=(0, -1), timeout=200)
def body_nested_generic_strict(gi: int, ctx: int, k: int, i: int, s: str) -> int:
    """GSh[int] / GSh[str] / GSh[float]: the value inside the nested GBx is accepted only if its kind is allowed for the type argument, in every embedding context (and through the constructor)"""
    if len(s) > 2:
        raise OutOfBound()
    cls = GSH[0] if gi == 0 else (GSH[1] if gi == 1 else GSH[2])
    v = _lf(k, i, s, gi == 2)
    # the allowed-relation of the property: int <- bool, int; str <- str; float <- bool, int, float
    if gi == 0:
        want = k == 1 or k == 2
    elif gi == 1:
        want = k == 4
    else:
        want = k == 1 or k == 2 or k == 3
        if k == 2:
            try:
                float(v)
            except OverflowError:
                want = False
    box = {'value': v}
    if ctx == 0:
        d = {'boxes': [{'value': v}]}
    elif ctx == 1:
        d = {'opt': box}
    elif ctx == 2:
        d = {'m': {'k': box}}
    elif ctx == 3:
        d = {'tup': [box, 1]}
    elif ctx == 4:
        d = {'un': box}
    else:
        d = {'direct': box}
    for use_ctor in (False, True):
        try:
            if use_ctor:
                cls(**d)
            else:
                cls.from_data(d)
            ok = True
        except ConvertError:
            ok = False
        except Exception as e:
            if crosshair_exc(e):
                raise
            return 10
        if ok and not want:
            return 1
        if want and not ok:
            return 2
    return 0 if want else -1


for _g in range(3):
    for _c in range(6):
        for _k in range(6):
            try:
                body_nested_generic_strict(_g, _c, _k, 1, 'a')
            except Exception:
                pass
