"""C17, thorough tier: generic hierarchies drawn from a grammar with VERIF_SEED.

Each drawn program is  A[T, U] (1-3 fields)  ->  B(A[s1, s2], Generic[V, W]) (0-2 own fields)  ->  an instantiation
(direct A[c1, c2] | B[c1, c2] | a plain subclass of B[c1, c2] | B bound in two steps), where every field type and every
argument s1, s2 is a type TREE over the variables (leaves int/str/float, list, dict, optional, tuple, union, annotated, and two
generic dataclasses Box[.] and Pair[., .]).  The expected field types are computed on the trees (substitution is three lines),
never read from pane; membership of a value in a concrete tree is decided by a 25-line reference (`member`).
For every drawn program the solver chooses which field is attacked and the leaf put at the deepest position of that field's
value (6 leaf kinds, symbolic int / str); every other field holds a valid value.  Verdict codes: 1 field order differs from
(base fields, then own fields); 4 conversion does not enforce the substituted type; 10 unexpected exception; 2 the program
could not be built (subscription / class creation raised).  Witness classes: 0 accepted, -1 rejected.

The programs are regenerated from the seed at import (replay scripts carry the seed); nothing is stored.
"""
import os
import random
import types
import typing as t

import pane
from pane import PaneBase, field
from pane.annotations import Condition
from pane.convert import make_converter
from pane.errors import ConvertError

from hlib import obligation, crosshair_exc, lf

SEED = int(os.environ.get('VERIF_SEED', '0') or 0)
N_PROGRAMS = 64
OKC = Condition(lambda v: True, 'ok')
T, U, V, W = (t.TypeVar(n) for n in 'TUVW')
VARS = {'T': T, 'U': U, 'V': V, 'W': W}


class Box(PaneBase, t.Generic[T]):
    item: T


class Pair(PaneBase, t.Generic[T, U]):
    l: T
    r: t.List[U] = field(default_factory=list)


LEAF = ['int', 'str', 'float']
CONC = ['int', 'str', ('list', 'int'), ('opt', 'str'), ('box', 'int'), 'float']


def mk(name, bases, ns):
    return types.new_class(name, bases, {}, lambda d: d.update(ns))


def gen_tree(rnd, vars_, depth):
    r = rnd.random()
    if depth == 0 or r < 0.3:
        return rnd.choice(vars_) if (vars_ and rnd.random() < 0.7) else rnd.choice(LEAF)
    k = rnd.choice(['list', 'dict', 'opt', 'tup', 'box', 'pair', 'union', 'ann'])
    if k in ('tup', 'pair'):
        return (k, gen_tree(rnd, vars_, depth - 1), gen_tree(rnd, vars_, depth - 1))
    if k == 'union':
        return (k, gen_tree(rnd, vars_, depth - 1), ('list', gen_tree(rnd, vars_, depth - 1)))
    return (k, gen_tree(rnd, vars_, depth - 1))


def subst(tr, env):
    if isinstance(tr, str):
        return env.get(tr, tr)
    return (tr[0],) + tuple(subst(x, env) for x in tr[1:])


def to_ty(tr):
    if isinstance(tr, str):
        if tr in VARS:
            return VARS[tr]
        return {'int': int, 'str': str, 'float': float}[tr]
    k = tr[0]
    a = [to_ty(x) for x in tr[1:]]
    if k == 'list':
        return t.List[a[0]]
    if k == 'dict':
        return t.Dict[str, a[0]]
    if k == 'opt':
        return t.Optional[a[0]]
    if k == 'tup':
        return t.Tuple[a[0], a[1]]
    if k == 'box':
        return Box[a[0]]
    if k == 'pair':
        return Pair[a[0], a[1]]
    if k == 'union':
        return t.Union[a[0], a[1]]
    return t.Annotated[a[0], OKC]


def member(tr, v):
    """reference: is the interchange value v a member of the concrete tree tr"""
    if isinstance(tr, str):
        if tr == 'int':
            return isinstance(v, int)
        if tr == 'float':
            if isinstance(v, bool) or isinstance(v, int):
                try:
                    float(v)
                    return True
                except OverflowError:
                    return False
            return isinstance(v, float)
        return isinstance(v, str)
    k = tr[0]
    if k == 'list':
        return isinstance(v, (list, tuple)) and all(member(tr[1], x) for x in v)
    if k == 'dict':
        return isinstance(v, dict) and all(isinstance(kk, str) and member(tr[1], x) for (kk, x) in v.items())
    if k == 'opt':
        return v is None or member(tr[1], v)
    if k == 'tup':
        return isinstance(v, (list, tuple)) and len(v) == 2 and member(tr[1], v[0]) and member(tr[2], v[1])
    if k == 'box':
        return isinstance(v, dict) and list(v.keys()) == ['item'] and member(tr[1], v['item'])
    if k == 'pair':
        if not isinstance(v, dict) or 'l' not in v:
            return False
        for kk in v:
            if kk not in ('l', 'r'):
                return False
        if not member(tr[1], v['l']):
            return False
        return 'r' not in v or (isinstance(v['r'], (list, tuple)) and all(member(tr[2], x) for x in v['r']))
    if k == 'union':
        return member(tr[1], v) or member(tr[2], v)
    return member(tr[1], v)


def gen_val(tr, leaf):
    """a value shaped like tr; `leaf` (a thunk) supplies the leaf at the LAST leaf position, the others are valid"""
    if isinstance(tr, str):
        if leaf is not None:
            return leaf()
        return {'int': 3, 'str': 's', 'float': 2.5}[tr]
    k = tr[0]
    if k == 'list':
        return [gen_val(tr[1], leaf)]
    if k == 'dict':
        return {'k': gen_val(tr[1], leaf)}
    if k in ('opt', 'ann'):
        return gen_val(tr[1], leaf)
    if k == 'tup':
        return [gen_val(tr[1], None), gen_val(tr[2], leaf)]
    if k == 'box':
        return {'item': gen_val(tr[1], leaf)}
    if k == 'pair':
        return {'l': gen_val(tr[1], None), 'r': [gen_val(tr[2], leaf)]}
    return gen_val(tr[2], leaf)           # union: the list alternative


def draw(rnd, idx):
    fa = [gen_tree(rnd, ['T', 'U'], 2) for _ in range(rnd.randint(1, 3))]
    s1, s2 = gen_tree(rnd, ['V', 'W'], 1), gen_tree(rnd, ['V', 'W'], 1)
    fb = [gen_tree(rnd, ['V', 'W'], 2) for _ in range(rnd.randint(0, 2))]
    c1, c2 = rnd.choice(CONC), rnd.choice(CONC)
    mode = rnd.choice(['direct', 'sub', 'subsub', 'partial'])
    desc = f"A[T,U] {fa}; B(A[{s1},{s2}])[V,W] {fb}; {mode} [{c1},{c2}]"
    try:
        A = mk(f'A{idx}', (PaneBase, t.Generic[T, U]), {'__annotations__': {f'a{i}': to_ty(x) for (i, x) in enumerate(fa)}})
        if mode == 'direct':
            cls = A[to_ty(c1), to_ty(c2)]
            expected = {f'a{i}': subst(x, {'T': c1, 'U': c2}) for (i, x) in enumerate(fa)}
        else:
            used = []

            def walk(x):
                if isinstance(x, str):
                    if x in ('V', 'W') and x not in used:
                        used.append(x)
                else:
                    for y in x[1:]:
                        walk(y)
            for tr in (s1, s2, *fb):
                walk(tr)
            used.sort()
            bases = (A[to_ty(s1), to_ty(s2)],) + ((t.Generic[tuple(VARS[u] for u in used)],) if used else ())
            B = mk(f'B{idx}', bases, {'__annotations__': {f'b{i}': to_ty(x) for (i, x) in enumerate(fb)}})
            envB = dict(zip(used, [c1, c2]))
            if mode == 'partial' and len(used) == 2:
                cls = B[to_ty(c1), W][to_ty(c2)]
            elif used:
                cls = B[tuple(to_ty(envB[u]) for u in used)] if len(used) > 1 else B[to_ty(envB[used[0]])]
            else:
                cls = B
            if mode == 'subsub':
                cls = mk(f'Cc{idx}', (cls,), {'__annotations__': {'z': int}, 'z': 0})
            envA = {'T': subst(s1, envB), 'U': subst(s2, envB)}
            expected = {f'a{i}': subst(x, envA) for (i, x) in enumerate(fa)}
            expected.update({f'b{i}': subst(x, envB) for (i, x) in enumerate(fb)})
        make_converter(cls)
    except Exception as e:
        return dict(desc=desc, cls=None, error=repr(e)[:100])
    names = list(expected) + (['z'] if mode == 'subsub' else [])
    return dict(desc=desc, cls=cls, expected=expected, names=names)


def draw_all(seed):
    rnd = random.Random(171717 + seed)
    return [draw(rnd, i) for i in range(N_PROGRAMS)]


PROGS = draw_all(SEED)


def check(idx, fsel, k, i, s):
    P = PROGS[idx]
    if P['cls'] is None:
        return 2
    cls = P['cls']
    if [f.name for f in cls.__pane_info__.fields] != P['names']:
        return 1
    expected = P['expected']
    target = None
    n = 0
    for name in expected:
        if n == fsel:
            target = name
        n += 1
    if target is None:
        return -99
    data = {}
    for (name, tr) in expected.items():
        data[name] = gen_val(tr, (lambda: lf(k, i, s)) if name == target else None)
    want = True
    for (name, tr) in expected.items():
        if not member(tr, data[name]):
            want = False
    try:
        cls.from_data(data)
        ok = True
    except ConvertError:
        ok = False
    except Exception as e:
        if crosshair_exc(e):
            raise
        return 10
    if ok != want:
        return 4
    return 0 if ok else -1


for _i in range(len(PROGS)):
    for _f in range(3):
        for _k in range(6):
            try:
                check(_i, _f, _k, 1, 'a')
            except Exception:
                pass

_T = '''
@obligation(pre="0 <= fsel <= 4 and 0 <= k <= 5", witnesses=(), timeout=240, tiers=('thorough',))
def body_hierarchy_{idx}(fsel: int, k: int, i: int, s: str) -> int:
    """seeded generic hierarchy #{idx} (seed {seed}): {desc}"""
    if len(s) > 2:
        return -99
    return check({idx}, fsel, k, i, s)
'''
for _i in range(len(PROGS)):
    exec(_T.format(idx=_i, seed=SEED, desc=PROGS[_i]['desc'].replace('"', "'").replace('\\', '')[:160]))
