"""Helpers shared by the harness modules (props/h*.py).

Everything here may run under CrossHair's tracer, so (DESIGN.md 2.1 rule 6) nothing dispatches on type
*objects* by identity and nothing indexes containers of types with symbolic integers.
"""
import copy
import math
import os
import sys
import traceback

import chx_stats

REPLAY = bool(os.environ.get('CHX_REPLAY'))

# ----------------------------------------------------------------------------- registry

REGISTRY = {}   # module name -> list of obligation dicts


def obligation(pre='True', witnesses=(0,), timeout=60, tiers=('quick', 'thorough'), note='', path_timeout=None):
    """Register a body function.  The body returns an int: > 0 names a violated clause, <= 0 is OK and names a
    witness class (0, -1, -2 ...).  The driver generates `ob_<name>` (post: _ <= 0) and, per declared witness
    class w, a reachability twin `tw_<name>_<w>` (post: _ != w) that MUST be refuted."""
    def deco(f):
        name = f.__name__
        assert name.startswith('body_'), name
        REGISTRY.setdefault(f.__module__, []).append(dict(
            name=name[5:], body=name, pre=pre, witnesses=tuple(witnesses), timeout=timeout,
            tiers=tuple(tiers), note=note, path_timeout=path_timeout, doc=(f.__doc__ or '').strip()))
        return f
    return deco


def guard(f, *args):
    """Run a body; verdict codes never escape as exceptions (DESIGN.md 2.1 rule 1)."""
    chx_stats.STATS['paths'] += 1
    try:
        return f(*args)
    except OutOfBound:
        return -99
    except Exception as e:
        m = (type(e).__module__ or '').split('.')[0]
        if m in ('crosshair', 'z3'):
            raise
        if REPLAY:
            traceback.print_exc()
        return 3


# ----------------------------------------------------------------------------- equality / snapshots

def isnan(x):
    return isinstance(x, float) and x != x


def eqv(a, b):
    """Structural, type-exact, NaN-aware equality (DESIGN.md 3.4)."""
    if a is b:
        return True
    if type(a) is not type(b):
        return False
    if isinstance(a, float):
        return a == b or (a != a and b != b)
    if isinstance(a, complex):
        return eqv(a.real, b.real) and eqv(a.imag, b.imag)
    if isinstance(a, (list, tuple)):
        if len(a) != len(b):
            return False
        for (x, y) in zip(a, b):
            if not eqv(x, y):
                return False
        return True
    if isinstance(a, dict):
        if len(a) != len(b):
            return False
        for k in a:
            if k not in b:
                return False
            if not eqv(a[k], b[k]):
                return False
        return True
    pi = getattr(type(a), '__pane_info__', None)
    if pi is not None:
        for fld in pi.fields:
            if not eqv(getattr(a, fld.name, _NOATTR), getattr(b, fld.name, _NOATTR)):
                return False
        return True
    return a == b


class _NoAttr:
    pass


_NOATTR = _NoAttr()


def eqv_loose(a, b):
    """Like eqv but tuple/list are interchangeable (interchange data)."""
    if isinstance(a, (list, tuple)) and isinstance(b, (list, tuple)):
        if len(a) != len(b):
            return False
        for (x, y) in zip(a, b):
            if not eqv_loose(x, y):
                return False
        return True
    if isinstance(a, dict) and isinstance(b, dict):
        if len(a) != len(b):
            return False
        for k in a:
            if k not in b or not eqv_loose(a[k], b[k]):
                return False
        return True
    return eqv(a, b)


def snapshot(v):
    """Deep, type-tagged structural copy used for before/after comparison (C09)."""
    if isinstance(v, list):
        return ('list', [snapshot(x) for x in v])
    if isinstance(v, tuple):
        return ('tuple', [snapshot(x) for x in v])
    if isinstance(v, dict):
        return ('dict', [(snapshot(k), snapshot(x)) for (k, x) in v.items()])
    if isinstance(v, (set, frozenset)):
        return ('set', [snapshot(x) for x in v])
    pi = getattr(type(v), '__pane_info__', None)
    if pi is not None:
        return ('pane', type(v).__name__, [(f.name, snapshot(getattr(v, f.name, None))) for f in pi.fields],
                sorted(getattr(v, '__pane_set__', ())))
    return ('leaf', type(v).__name__, v)     # eqv() is NaN-aware and short-cuts on identity (no float comparison)


def snap_eq(a, b):
    return eqv(a, b)


def is_interchange(d, depth=0):
    """Deep check that `d` consists solely of interchange values; type-exact for scalars."""
    if d is None:
        return True
    ty = type(d)
    if ty is bool or ty is int or ty is float or ty is str or ty is bytes or ty is complex:
        return True
    if ty is list or ty is tuple:
        for x in d:
            if not is_interchange(x, depth + 1):
                return False
        return True
    if ty is dict:
        for (k, x) in d.items():
            if not is_interchange(k, depth + 1) or not is_interchange(x, depth + 1):
                return False
        return True
    return False


# ----------------------------------------------------------------------------- value builders

# leaf kinds:        0     1     2    3      4
LEAF_KINDS = ('None', 'bool', 'int', 'float', 'str')


def leaf(k, b, i, f, s):
    """An interchange scalar chosen by selector k in 0..4."""
    if k == 0:
        return None
    elif k == 1:
        return b
    elif k == 2:
        return i
    elif k == 3:
        return f
    else:
        return s


def wrong_container(k, x):
    """Selector 0..3 -> a container-kinded wrong value carrying x."""
    if k == 0:
        return []
    elif k == 1:
        return [x]
    elif k == 2:
        return {}
    else:
        return {'k': x}


def tree_str(node):
    """str() of an error node / ConvertError, never raising here: returns (ok, text)."""
    try:
        return True, str(node)
    except Exception as e:  # the property (C08) says this must not happen
        m = (type(e).__module__ or '').split('.')[0]
        if m in ('crosshair', 'z3'):
            raise
        return False, repr(e)


# ----------------------------------------------------------------------------- generic bounded values

class OutOfBound(Exception):
    """Raised by a builder when a symbolic payload leaves the stated bound; guard() maps it to the neutral
    verdict -99 (= outside the claim, never a witness).  Applying bounds lazily, only on the paths that use the
    payload, keeps irrelevant forks out of every other path."""


# bound on symbolic strings in leaf slots: 2 characters (quick), 3 (thorough; VERIF_TIER is exported by the driver)
STR_MAX = 3 if os.environ.get('VERIF_TIER') == 'thorough' else 2

# A *leaf slot* is three primitives (k, i, s): kind selector 0..5 and the payloads.
#   0 None   1 bool (i > 0)   2 int i (unbounded)   3 float from {1.5, nan, -inf} (by sign of i)
#   4 str s (len <= STR_MAX)   5 bytes b'x'
# Symbolic floats are NOT part of a leaf slot: CrossHair forks 5 ways when it *creates* a float argument, used or
# not (measured), which multiplies every path of every obligation; obligations that need all floats take a
# dedicated `f: float` parameter (shape group F below, and the C13/C16 harnesses).
# A *small leaf slot* (second elements of pairs) has kinds 0 None, 1 int, 2 str.
NAN = float('nan')
INF = float('inf')


def fl3(i):
    if i > 0:
        return 1.5
    elif i == 0:
        return NAN
    else:
        return -INF


HUGE = 10 ** 400


def cint(i):
    """Concretise an int payload into 5 classes (for targets whose constructor does float arithmetic on it:
    CrossHair never reports 'Confirmed' for a path through float(symbolic int) -- measured)."""
    if i <= -1:
        return -1
    elif i == 0:
        return 0
    elif i == 1:
        return 1
    elif i >= 1000:
        return HUGE         # an int that float()/complex() cannot represent (OverflowError inside the target constructor)
    else:
        return 7


CI_ALL = [False]     # harnesses where int *values* are irrelevant (e.g. C09) set this to concretise every int payload


def lf(k, i, s, ci=False):
    if k == 0:
        return None
    elif k == 1:
        if ci:
            return True if i > 0 else False      # concrete bool objects (float(symbolic bool) is modelled inexactly)
        return i > 0
    elif k == 2:
        return cint(i) if (ci or CI_ALL[0]) else i
    elif k == 3:
        return fl3(i)
    elif k == 4:
        if ci:
            return 'ab' if i > 0 else ''      # (constructing a str subclass from a symbolic str realises it without end)
        if len(s) > STR_MAX:
            raise OutOfBound()
        return s
    else:
        return b'x'


def lf3(k, i, s, ci=False):
    if k == 0:
        return None
    elif k == 1:
        return cint(i) if (ci or CI_ALL[0]) else i
    else:
        if len(s) > STR_MAX:
            raise OutOfBound()
        return s


def key3(sel, a, b, c):
    """Choose a mapping key from a 3-word vocabulary by selector (if-chain, never an index)."""
    if sel == 0:
        return a
    elif sel == 1:
        return b
    else:
        return c


def key4(sel, a, b, c, d):
    if sel == 0:
        return a
    elif sel == 1:
        return b
    elif sel == 2:
        return c
    else:
        return d


# generic depth-1 value: shape selector kt
#   group A: 0 leaf A | 1 [] | 2 [A] | 3 {} | 4 {ka: A} | 5 {ka: [A]}
#   group B: 6 [A, B] | 7 (A, B) tuple | 8 [[A], B]
#   group C: 9 {ka: A, kb: B}  (ya != yb)
#   group F (symbolic float f): 0 f | 1 [f] | 2 {key0: f} | 3 (f, 1)
GV_SIG = "kt: int, ka: int, ia: int, sa: str, kb: int, ib: int, sb: str, ya: int, yb: int"
GV_ARGS = "kt, ka, ia, sa, kb, ib, sb, ya, yb"
GV_PRE = {
    'A': "0 <= kt <= 5 and 0 <= ka <= 5 and 0 <= ya <= 2",
    'B': "6 <= kt <= 8 and 0 <= ka <= 5 and 0 <= kb <= 2",
    'C': "kt == 9 and 0 <= ka <= 5 and 0 <= kb <= 2 and 0 <= ya <= 2 and 0 <= yb <= 2 and ya != yb",
}
GVF_SIG = "kt: int, f: float"
GVF_ARGS = "kt, f"
GVF_PRE = "0 <= kt <= 3"


def gv(kt, ka, ia, sa, kb, ib, sb, ya, yb, vocab=('a', 'b', 'zz'), ci=False):
    if kt == 1:
        return []
    elif kt == 3:
        return {}
    A = lf(ka, ia, sa, ci)
    if kt == 0:
        return A
    elif kt == 2:
        return [A]
    elif kt == 4:
        return {key3(ya, vocab[0], vocab[1], vocab[2]): A}
    elif kt == 5:
        return {key3(ya, vocab[0], vocab[1], vocab[2]): [A]}
    B = lf3(kb, ib, sb, ci)
    if kt == 6:
        return [A, B]
    elif kt == 7:
        return (A, B)
    elif kt == 8:
        return [[A], B]
    else:
        return {key3(ya, vocab[0], vocab[1], vocab[2]): A, key3(yb, vocab[0], vocab[1], vocab[2]): B}


def gvf(kt, f, vocab=('a', 'b', 'zz')):
    if kt == 0:
        return f
    elif kt == 1:
        return [f]
    elif kt == 2:
        return {vocab[0]: f}
    else:
        return (f, 1)


def untraced():
    """context manager: run a block CONCRETELY even under CrossHair's tracer.  Needed where the subject is a
    functools.lru_cache memo: CrossHair deliberately bypasses lru_cache caches while tracing, so a stale-memo defect would
    be invisible; arguments must be concrete (selectors concretised by comparison chains)."""
    try:
        from crosshair.tracers import NoTracing, is_tracing
        if is_tracing():
            return NoTracing()
    except Exception:
        pass
    import contextlib
    return contextlib.nullcontext()


def crosshair_exc(e):
    return (type(e).__module__ or '').split('.')[0] in ('crosshair', 'z3')


# ----------------------------------------------------------------------------- error-tree comparison (NaN-aware)

def tree_eq(a, b):
    """Structural equality of two pane error trees; `actual` values compared with eqv_loose-free eqv (NaN-aware)."""
    from pane import errors as E
    if a is None or b is None:
        return a is None and b is None
    if type(a) is not type(b):
        return False
    if isinstance(a, E.ProductErrorNode):
        if a.expected != b.expected or not eqv(a.actual, b.actual):
            return False
        if set(a.missing) != set(b.missing) or set(a.extra) != set(b.extra):
            return False
        if len(a.children) != len(b.children):
            return False
        for k in a.children:
            if k not in b.children or not tree_eq(a.children[k], b.children[k]):
                return False
        return True
    if isinstance(a, E.SumErrorNode):
        if len(a.children) != len(b.children):
            return False
        for (x, y) in zip(a.children, b.children):
            if not tree_eq(x, y):
                return False
        return True
    if isinstance(a, E.WrongTypeError):
        return (a.expected == b.expected and eqv(a.actual, b.actual) and a.info == b.info
                and (a.cause is None) == (b.cause is None)
                and (a.cause is None or a._get_cause() == b._get_cause()))
    if isinstance(a, E.WrongLenError):
        return (a.expected == b.expected and a.expected_len == b.expected_len and eqv(a.actual, b.actual)
                and a.actual_len == b.actual_len)
    if isinstance(a, E.ConditionFailedError):
        return (a.expected == b.expected and eqv(a.actual, b.actual) and a.condition == b.condition
                and (a.cause is None) == (b.cause is None))
    if isinstance(a, E.DuplicateKeyError):
        return a.key == b.key and tuple(a.aliases) == tuple(b.aliases)
    return a == b
