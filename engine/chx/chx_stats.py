"""Per-process counters shared between the CrossHair plugin and the harness guard.
Printed to stderr as one "CHXSTATS {json}" line at interpreter exit (CrossHair's audit wall forbids opening files
for writing, so a file is not an option)."""
import atexit
import json
import os
import sys

STATS = {'paths': 0, 'queries': 0, 'solver_s': 0.0, 'plugin': 0}


def _dump():
    if not os.environ.get('CHX_STATS'):
        return
    try:
        sys.stderr.write("\nCHXSTATS " + json.dumps(STATS) + "\n")
        sys.stderr.flush()
    except Exception:
        pass


atexit.register(_dump)
