#!/bin/bash
# tools/collect_round.sh <worktree prefix> <first index> : copy the deliverables of a seeding round
# (<prefix>_<Cxx>/_seed/{1,2}) into /verif/seeded/<Cxx>-<index>, <Cxx>-<index+1>.  Only files; nothing is applied here
# (tools/seedtest.sh confirms each change in a scratch worktree before it counts).
P="$1"; I="$2"
for d in ${P}_C*; do
  [ -d "$d/_seed" ] || continue
  id=$(basename "$d"); id=${id#*_}
  for n in 1 2; do
    s="$d/_seed/$n"
    [ -f "$s/patch.diff" ] || { echo "$id/$n: no patch"; continue; }
    t=/verif/seeded/$id-$((I + n - 1))
    mkdir -p "$t"
    cp "$s/patch.diff" "$t/patch.diff"
    [ -f "$s/demo.py" ] && cp "$s/demo.py" "$t/demo.py"
    [ -f "$s/meta.json" ] && cp "$s/meta.json" "$t/meta.json"
    echo "$id/$n -> $t"
  done
done
