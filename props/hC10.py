"""C10 harness: results are independent of call history (memoisation is transparent).

Oracle: "a converter freshly built for the same type and handlers" (make_converter.inner_f, bypassing the memo).
 (i)  id reuse / garbage collection: pane.convert's global `id` is shadowed by a deterministic allocator stub that may hand
      the id of a DEAD object (weak reference cleared after the user's last reference is dropped and gc.collect()) to the next
      new object -- whether it does is the solver's choice.  Histories of <= 5 operations (use type k / drop type k) over a
      pool of 6 type factories, the order chosen by the solver.  An implementation that retains the type or evicts on death
      passes; one that merely keys on id fails.  (The stub only ever reuses ids of objects that really died.)
 (ii) order of first use and handler sets: no drops; symbolic order and symbolic handler form per call; generic subscription
      (G[int], G[str], G[Union[..]] in both member orders) in symbolic order.
 (iii) schedules: KeyCache.__call__ is re-emitted from its source as a generator with a preemption point after every
      statement (a `with self._lock:` block stays atomic); two such calls over one cache are interleaved by symbolic schedule
      bits; sequential LRU histories against a reference LRU.
Verdict codes: 1 a memoised lookup differs from the fresh converter (expected() text); 2 conversion result/verdict differs;
4 generic subscription depends on history; 5 KeyCache returned a wrong value; 6 LRU bound / list-dict invariant broken;
7 LRU differs from the reference; 10 unexpected exception.  Witness classes: 0.
"""
import ast
import collections
import gc
import inspect
import sys
import textwrap
import typing as t
import weakref
from typing import List, Dict, Optional, Union

import pane
from pane import PaneBase, field
from pane.convert import make_converter, ConverterHandlers
from pane.errors import ParseInterrupt, ConvertError
from pane.util import KeyCache

from hlib import obligation, crosshair_exc, eqv, lf, untraced

PCV = sys.modules['pane.convert']
PCL = sys.modules['pane.classes']


class DictT(dict):
    """a struct type literal that can be weakly referenced (plain dict/tuple literals cannot)"""


FACT = (
    lambda: list[int],
    lambda: dict[str, float],
    lambda: list[str],
    lambda: DictT({'a': int}),
    lambda: DictT({'a': str}),
    lambda: t.Optional[list[int]],
    lambda: tuple[int, str],
    lambda: tuple[str, int],
    # equal-comparing aliases that convert differently (unions are tried left to right): a memo keyed by VALUE would mix them
    lambda: list[t.Union[int, float]],
    lambda: list[t.Union[float, int]],
)
NF = len(FACT)
SNAP = None


def conc(k, n):
    """a symbolic selector in 0..n-1 as a CONCRETE int (decided by comparisons): selectors are used as dict keys and
    list indices below, and hashing a symbolic int makes CrossHair enumerate it without ever exhausting the paths"""
    for c in range(n):
        if k == c:
            return c
    return n - 1


def fresh(ty, handlers=ConverterHandlers()):
    return make_converter.inner_f(ty, handlers)


class IdStub:
    """deterministic model of the allocator behind id(): every live object has its own id; the id of an object that has
    died may be given to the next new object when `reuse` says so"""
    def __init__(self):
        self.reset([])

    def reset(self, reuse_bits):
        self.table = []          # [id, weakref or strong object]
        self.next = 1000
        self.reuse_bits = list(reuse_bits)
        self.allocs = 0

    def __call__(self, obj):
        for ent in self.table:
            o = ent[1]() if isinstance(ent[1], weakref.ref) else ent[1]
            if o is obj:
                return ent[0]
        reuse = False
        if self.allocs < len(self.reuse_bits):
            reuse = self.reuse_bits[self.allocs]
        self.allocs += 1
        new_id = None
        if reuse:
            for ent in reversed(self.table):
                if isinstance(ent[1], weakref.ref) and ent[1]() is None:
                    new_id = ent[0]
                    self.table.remove(ent)
                    break
        if new_id is None:
            new_id = self.next
            self.next += 8
        try:
            ref = weakref.ref(obj)
        except TypeError:
            ref = obj                # not weakly referenceable: kept alive by the stub, its id is never reused
        self.table.append([new_id, ref])
        return new_id


STUB = IdStub()
SAMPLES = ([1], ['a'], {'a': 1}, {'a': 'x'}, {'k': 1.5}, None, (1, 'a'), ('a', 1), [1, 'a'], 5)


def same_behaviour(conv, ref, v):
    if conv.expected() != ref.expected():
        return 1
    for s in SAMPLES:
        a = _outcome(conv, s)
        b = _outcome(ref, s)
        if a[0] != b[0] or (a[0] and not eqv(a[1], b[1])):
            return 2
    a = _outcome(conv, v)
    b = _outcome(ref, v)
    if a[0] != b[0] or (a[0] and not eqv(a[1], b[1])):
        return 2
    return 0


def _outcome(conv, v):
    try:
        return True, conv.try_convert(v)
    except ParseInterrupt:
        return False, None


def run_history(ops, reuse_bits, v):
    """ops: list of ints; op < NF: use type op; op >= NF: drop type op - NF"""
    old_id = PCV.__dict__.get('id', None)
    old_cache = make_converter.cache
    make_converter.cache = dict(SNAP)
    STUB.reset(reuse_bits)
    PCV.id = STUB
    held = {}
    try:
        for op in ops:
            if op < NF:
                ty = held.get(op)
                if ty is None:
                    ty = pick_factory(op)()
                    held[op] = ty
                conv = make_converter(ty)
                r = same_behaviour(conv, fresh(ty), v)
                if r:
                    return r
                del conv
            else:
                k = op - NF
                if k in held:
                    del held[k]
                ty = None
                gc.collect()
        return 0
    finally:
        if old_id is None:
            del PCV.id
        else:
            PCV.id = old_id
        make_converter.cache = old_cache


def pick_factory(k):
    n = 0
    for f in FACT:
        if n == k:
            return f
        n += 1
    return FACT[0]


for _f in FACT:
    try:
        make_converter(_f())
    except Exception:
        pass
SNAP = dict(make_converter.cache)
for _ops in ([0, NF + 0, 1, 2], [3, NF + 3, 4], [0, 1, 2, 5], [6, NF + 6, 7, 0]):
    try:
        run_history(_ops, [True, True, True, True, True], [1])
    except Exception:
        pass

_HIST = '''
@obligation(pre="o1 == {lo} and 0 <= o2 < NF and 0 <= k <= 2 and o2 != o1", witnesses=(0,), timeout=480)
def body_history_{lo}(o1: int, o2: int, d1: bool, d2: bool, r2: bool, r3: bool, k: int, i: int, s: str) -> int:
    """histories: use type {lo} [drop it] use type o2 [drop it] use {lo} again, use o2 again -- over 10 type factories, with an allocator that may recycle the ids of dead types: every memoised lookup behaves like a fresh converter"""
    o1, o2 = conc(o1, NF), conc(o2, NF)
    ops = [o1]
    if d1:
        ops.append(NF + o1)
    ops.append(o2)
    if d2:
        ops.append(NF + o2)
    ops.append(o1)
    ops.append(o2)
    return run_history(ops, [False, r2, r3, True, True, True], [lf(k, i, s, True)])
'''.replace('NF', str(NF))
for _lo in range(0, NF):
    exec(_HIST.format(lo=_lo))


# ------------------------------------------------------------------ (ii) order of first use, handler forms, generic subscription

class Mk(pane.converters.Converter):
    def __init__(self, k):
        self.k = k

    def expected(self, plural=False):
        return f"mark {self.k}"

    def try_convert(self, val):
        if isinstance(val, int):
            return ('m', self.k, val)
        raise ParseInterrupt()

    def collect_errors(self, val):
        return None

    def __hash__(self):
        return hash(('Mk', self.k))

    def __eq__(self, o):
        return isinstance(o, Mk) and o.k == self.k


def h1(ty, args, *, handlers):
    return Mk(1) if ty is int else NotImplemented


def h2(ty, args, *, handlers):
    return Mk(2) if ty is int else NotImplemented


POOL = (t.List[int], t.Dict[str, int], t.Tuple[int, str], t.Optional[int], t.Union[int, str], {'a': int})
CUST = (None, h1, [h1], {int: Mk(3)}, h2, [h2, h1], {int: Mk(4)})
MARK = (0, 1, 1, 3, 2, 2, 4)
VALS = ([5], {'k': 5}, (5, 's'), 5, 5, {'a': 5})


def expect_value(ti, ci, x):
    m = pick(MARK, ci)
    y = x if m == 0 else ('m', m, x)
    if ti == 0:
        return [y]
    elif ti == 1:
        return {'k': y}
    elif ti == 2:
        return (y, 's')
    elif ti == 3 or ti == 4:
        return y
    else:
        return {'a': y}


def pick(xs, k):
    n = 0
    for x in xs:
        if n == k:
            return x
        n += 1
    return xs[0]


def value_for(ti, x):
    if ti == 0:
        return [x]
    elif ti == 1:
        return {'k': x}
    elif ti == 2:
        return (x, 's')
    elif ti == 3 or ti == 4:
        return x
    else:
        return {'a': x}


@obligation(pre="0 <= t1 <= 5 and 0 <= t2 <= 5 and (t2 == t1 + 1 or (t1 == 5 and t2 == 0)) and t3 == t1 and 0 <= c1 <= 6 and c2 == c1 and 0 <= c3 <= 6 and c3 != c1", witnesses=(0,), timeout=480)
def body_handler_history(t1: int, c1: int, t2: int, c2: int, t3: int, c3: int, x: int) -> int:
    """from_data(value, type, custom=handlers) depends on those three only: any order of (type, handler form) triples, incl. mapping-form handlers that are rebuilt per call"""
    t1, t2, t3, c1, c2, c3 = conc(t1, 6), conc(t2, 6), conc(t3, 6), conc(c1, 7), conc(c2, 7), conc(c3, 7)
    old_cache = make_converter.cache
    make_converter.cache = dict(SNAP2)
    try:
        for (ti, ci) in ((t1, c1), (t2, c2), (t3, c3), (t1, c1)):
            try:
                r = pane.from_data(value_for(ti, x), pick(POOL, ti), custom=pick(CUST, ci))
            except Exception as e:
                if crosshair_exc(e):
                    raise
                return 10
            if not eqv(r, expect_value(ti, ci, x)):
                return 2
        return 0
    finally:
        make_converter.cache = old_cache


def _clear_subclass_cache():
    for name in ('_make_subclass', '_make_subclass_cached'):
        f = getattr(PCL, name, None)
        if f is not None and hasattr(f, 'cache_clear'):
            f.cache_clear()


T = t.TypeVar('T')


class G(PaneBase, t.Generic[T]):
    v: T


# (PEP 585 list[...] on purpose: typing.List[Union[float, int]] is served from typing's own cache with the member order of
# whichever equal-comparing alias was created first in the process -- a property of typing, not of pane)
SUBS = (int, str, t.Union[int, float], t.Union[float, int], t.Optional[int], list[t.Union[int, float]], list[t.Union[float, int]])
SUBVAL = (5, 's', 5, 5, None, [5], [5])
SUBEXP = (5, 's', 5, 5.0, None, [5], [5.0])


@obligation(pre="0 <= a <= 6 and 0 <= b <= 6 and c == b", witnesses=(0,), timeout=480)
def body_subscription_history(a: int, b: int, c: int) -> int:
    """G[X](v) converts v as X whatever subscriptions of G were made before (G[Union[int, float]] vs G[Union[float, int]])"""
    a, b, c = conc(a, 7), conc(b, 7), conc(c, 7)
    _clear_subclass_cache()
    old_cache = make_converter.cache
    make_converter.cache = dict(SNAP2)
    try:
        for k in (a, b, c, a):
            with untraced():          # (_make_subclass is an lru_cache memo: CrossHair bypasses those while tracing)
                cls = G[pick(SUBS, k)]
            try:
                x = cls.from_data({'v': pick(SUBVAL, k)})
            except Exception as e:
                if crosshair_exc(e):
                    raise
                return 10
            if not eqv(x.v, pick(SUBEXP, k)):
                return 4
        return 0
    finally:
        make_converter.cache = old_cache
        _clear_subclass_cache()


for _ty in POOL:
    try:
        make_converter(_ty)
    except Exception:
        pass
SNAP2 = dict(make_converter.cache)
for _a in ((0, 1, 1, 3, 2, 0, 5), (5, 3, 5, 6, 0, 2, 1)):
    try:
        body_handler_history(*_a)
    except Exception:
        pass
try:
    body_subscription_history(0, 2, 3)
    body_subscription_history(3, 2, 5)
except Exception:
    pass


# ------------------------------------------------------------------ (iii) KeyCache: schedules and LRU histories

def _reemit_call():
    """KeyCache.__call__ re-emitted from its source as a generator: `yield` after every statement outside `with` blocks"""
    src = textwrap.dedent(inspect.getsource(KeyCache.__call__))
    fn = ast.parse(src).body[0]

    def weave(stmts):
        out = []
        for st in stmts:
            if isinstance(st, ast.If):
                st.body = weave(st.body)
                st.orelse = weave(st.orelse)
            out.append(st)
            if not isinstance(st, ast.Return):
                out.append(ast.Expr(ast.Yield(ast.Constant(None))))
        return out

    fn.body = weave(fn.body)
    fn.name = 'call_gen'
    fn.returns = None
    for a in fn.args.args + [fn.args.vararg, fn.args.kwarg]:
        if a is not None:
            a.annotation = None
    mod = ast.Module([fn], [])
    ast.fix_missing_locations(mod)
    ns = dict(vars(sys.modules['pane.util']))
    exec(compile(mod, '<KeyCache.__call__ as generator>', 'exec'), ns)
    return ns['call_gen']


CALL_GEN = _reemit_call()


def _f(key):
    return key * 10 + 1


def _consistent(c):
    """linked list <-> dict invariant of the LRU mode"""
    if c.maxsize is None:
        return True
    root = c._root
    seen = []
    link = root[1]
    n = 0
    while link is not root:
        if n > 10:
            return False
        seen.append(link[2])
        if c.cache.get(link[2]) is not link:
            return False
        if link[1][0] is not link:
            return False
        link = link[1]
        n += 1
    return len(seen) == len(c.cache) and set(seen) == set(c.cache.keys())


def _advance(g):
    try:
        next(g)
        return False, None
    except StopIteration as e:
        return True, e.value


def _schedule(ms, k0, k1, k2, s1, s2, s3, s4, s5, s6, s7=False, s8=True):
    """two interleaved KeyCache calls (preemption after every statement, schedule chosen by the solver): both return f(key), the LRU bound and the list/dict invariant hold"""
    ms, k0, k1, k2 = conc(ms, 3), conc(k0, 3), conc(k1, 3), conc(k2, 3)
    c = KeyCache(_f, lambda key: key, None if ms == 0 else ms)
    if c(k0) != _f(k0):
        return 5
    g1, g2 = CALL_GEN(c, k1), CALL_GEN(c, k2)
    d1 = d2 = False
    r1 = r2 = None
    for s in (s1, s2, s3, s4, s5, s6, s7, s8):
        if s and not d1:
            d1, r1 = _advance(g1)
        elif not d2:
            d2, r2 = _advance(g2)
        elif not d1:
            d1, r1 = _advance(g1)
    while not d1:
        d1, r1 = _advance(g1)
    while not d2:
        d2, r2 = _advance(g2)
    if r1 != _f(k1) or r2 != _f(k2):
        return 5
    if c.maxsize is not None and len(c.cache) > c.maxsize:
        return 6
    if not _consistent(c):
        return 6
    if c(k1) != _f(k1) or c(k2) != _f(k2) or not _consistent(c):
        return 5
    return 0


_SCH = '''
@obligation(pre="ms == {ms} and k0 == {k0} and 0 <= k1 <= 2 and 0 <= k2 <= 2", witnesses=(0,), timeout=300, tiers={tiers!r})
def body_schedule{bits}_{ms}_{k0}(ms: int, k0: int, k1: int, k2: int, {sig}) -> int:
    """two interleaved KeyCache calls (maxsize {ms}: 0 = unbounded; preemption after every statement, {bits} schedule bits chosen by the solver): both return f(key), the LRU bound and the list/dict invariant hold"""
    return _schedule(ms, k0, k1, k2, {args})
'''
for _ms in (0, 1, 2):
    for _k0 in (0, 1):
        exec(_SCH.format(ms=_ms, k0=_k0, bits=6, tiers=('quick',), sig=', '.join(f's{i}: bool' for i in range(1, 7)),
                         args=', '.join(f's{i}' for i in range(1, 7))))
        exec(_SCH.format(ms=_ms, k0=_k0, bits=8, tiers=('thorough',), sig=', '.join(f's{i}: bool' for i in range(1, 9)),
                         args=', '.join(f's{i}' for i in range(1, 9))))


@obligation(pre="1 <= ms <= 2 and 0 <= a <= 2 and 0 <= b <= 2 and 0 <= c <= 2 and 0 <= d <= 2 and e == 0", witnesses=(0,), timeout=480)
def body_lru(ms: int, a: int, b: int, c: int, d: int, e: int) -> int:
    """sequential LRU histories of 5 calls over 3 keys: results right, inner function called exactly as a reference LRU would"""
    ms, a, b, c, d, e = conc(ms, 3), conc(a, 3), conc(b, 3), conc(c, 3), conc(d, 3), conc(e, 3)
    calls = [0]

    def f(key):
        calls[0] += 1
        return key * 10 + 1

    cache = KeyCache(f, lambda key: key, ms)
    ref = collections.OrderedDict()
    misses = 0
    for k in (a, b, c, d, e):
        if cache(k) != k * 10 + 1:
            return 5
        if k in ref:
            ref.move_to_end(k)
        else:
            misses += 1
            ref[k] = True
            if len(ref) > ms:
                ref.popitem(last=False)
        if len(cache.cache) > ms or not _consistent(cache):
            return 6
        if set(cache.cache.keys()) != set(ref.keys()):
            return 7
    if calls[0] != misses:
        return 7
    return 0


for _a in ((0, 0, 1, 1, True, False, True, False, True, False, True, False), (2, 1, 1, 2, False, False, True, True, True, False, False, True)):
    try:
        _schedule(*_a)
    except Exception:
        pass
try:
    body_lru(1, 0, 1, 0, 2, 1)
    body_lru(2, 0, 1, 0, 2, 1)
except Exception:
    pass


# ------------------------------------------------------------------ one handler function used at two tiers

def h_shared(ty, args, *, handlers):
    """the SAME function object is the class-level custom= of an enclosing dataclass and a call-level custom="""
    return Mk(7) if ty is int else NotImplemented


class TInner(PaneBase, custom={int: Mk(3)}):
    n: int = 0


class TOuter(PaneBase, custom=h_shared):
    inner: TInner
    w: int = 0


@obligation(pre="0 <= order <= 1", witnesses=(0,), timeout=240)
def body_handler_tiers(order: int, i: int, j: int) -> int:
    """a handler set is (call-level, class-level) -- not a flat sequence: converting TOuter (h_shared as enclosing class handler) and TInner with custom=h_shared (call level) gives the same results in either order"""
    old_cache = make_converter.cache
    make_converter.cache = dict(SNAP2)
    try:
        for step in ((0, 1) if order == 0 else (1, 0)):
            if step == 0:
                r = TOuter.from_data({'inner': {'n': i}, 'w': j})
                # inner int: TInner's own class handler (3) beats the enclosing class's (7); outer int: its own class handler (7)
                if not eqv(r.inner.n, ('m', 3, i)) or not eqv(r.w, ('m', 7, j)):
                    return 2
            else:
                r = TInner.from_data({'n': i}, custom=h_shared)
                # call-level handler (7) beats TInner's class handler (3)
                if not eqv(r.n, ('m', 7, i)):
                    return 2
        return 0
    finally:
        make_converter.cache = old_cache


try:
    body_handler_tiers(0, 1, 2)
    body_handler_tiers(1, 1, 2)
except Exception:
    pass


@obligation(pre="0 <= how <= 2 and 0 <= ti <= 1", witnesses=(0,), timeout=240)
def body_custom_dict_mutation(how: int, ti: int, x: int) -> int:
    """the SAME mapping object passed as custom= twice, with an entry replaced / removed / added in between: each call uses the mapping's contents at that call"""
    old_cache = make_converter.cache
    make_converter.cache = dict(SNAP2)
    try:
        d = {int: Mk(3)} if how != 2 else {float: Mk(9)}
        ty = t.List[int] if ti == 0 else t.Dict[str, int]
        v = [x] if ti == 0 else {'k': x}
        r1 = pane.from_data(v, ty, custom=d)
        m1 = 3 if how != 2 else 0
        if how == 0:
            d[int] = Mk(4)
            m2 = 4
        elif how == 1:
            del d[int]
            m2 = 0
        else:
            d[int] = Mk(5)
            m2 = 5
        r2 = pane.from_data(v, ty, custom=d)
        e1 = x if m1 == 0 else ('m', m1, x)
        e2 = x if m2 == 0 else ('m', m2, x)
        if not eqv(r1, [e1] if ti == 0 else {'k': e1}):
            return 2
        if not eqv(r2, [e2] if ti == 0 else {'k': e2}):
            return 2
        return 0
    finally:
        make_converter.cache = old_cache


for _h in range(3):
    try:
        body_custom_dict_mutation(_h, 0, 1)
        body_custom_dict_mutation(_h, 1, 1)
    except Exception:
        pass
