"""C01 harness: from_data(v, T) succeeds exactly when v denotes a member of T and then returns the deep, exactly-typed image.

Oracle: the reference model props/spec.py (written from the documentation) + equivalent spellings against each other.
Verdict codes: 1 a non-member was accepted; 2 a member was rejected; 4 the result is not the exactly-typed image;
5 something other than ConvertError escaped; 6 a second identical call gave a different result; 7 equivalent spellings of
the same type disagree.  Witness classes: 0 accepted, -1 rejected, (-3 = not judged by the reference model).
"""
import collections
import collections.abc
import typing as t
from typing import Literal, Optional, List

import pane
from pane import PaneBase, field
from pane.annotations import Positive, Finite
from pane.convert import make_converter
from pane.errors import ConvertError

from hlib import obligation, crosshair_exc, eqv, gv, gvf, GV_SIG, GV_ARGS, GV_PRE, GVF_SIG, GVF_ARGS, GVF_PRE
from props import shared, spec as S
from props.shared import TYPES, P1, P2, PH, PAl, PT, PN, PI

shared.export(globals())

# ------------------------------------------------------------------ the types judged by the reference model

NAMES = ['any', 'int', 'float', 'complex', 'str', 'bytes', 'none', 'bool', 'lit', 'enum_s', 'enum_i', 'strsub',
         'list_int', 'seq_any', 'set_int', 'tuple_var', 'tuple_fix', 'tuple_lit', 'dict_si', 'dict_if', 'counter', 'ddict',
         'struct', 'union', 'opt_list', 'cond_pos', 'cond_rng', 'cond_len', 'cond_nested',
         'p1', 'p2', 'ph', 'pal', 'pt', 'pn', 'pi', 'list_p1', 'dict_p2',
         'cond_set', 'tuple_struct', 'dict_fskey', 'dict_tupkey', 'opt_enum_sm', 'list_enum_im']
EXTRA = {
    'dict_list': t.Dict[str, t.List[int]],
    'list_tuple': t.List[t.Tuple[int, str]],
    'opt_p1': Optional[P1],
    'frozenset': t.FrozenSet[int],
    'deque': t.Deque[int],
    'seq_int': t.Sequence[int],
    'mutseq': t.MutableSequence[str],
    'mapping': t.Mapping[str, t.Optional[int]],
    'tuple_empty': t.Tuple[()],
    'union_p': t.Union[P1, t.List[int], str],
    'list_union': t.List[t.Union[int, str, None]],
    'struct_nested': {'a': {'b': int}, 'c': t.List[float]},
    'lit_mixed': Literal['a', 1, True, None],
}
TY = {n: TYPES[n] for n in NAMES}
TY.update(EXTRA)
VOCAB = dict(shared.VOCAB)
VOCAB.update({'dict_list': ('a', 'b', ''), 'mapping': ('a', 'b', ''), 'struct_nested': ('a', 'c', 'b'), 'opt_p1': ('a', 'b', 'zz'),
              'union_p': ('a', 'b', 'zz')})
SMALL = set(shared.SMALLINT) | {'float', 'strsub', 'tuple_fix', 'dict_if', 'p1', 'pn', 'list_p1', 'opt_p1', 'union_p', 'struct_nested', 'pi'}

_rng = t.get_args(TYPES['cond_rng'])[1:]
_len = t.get_args(TYPES['cond_len'])[1:]
PREDS = {
    Positive: lambda x: x > 0,
    Finite: lambda x: x == x and x != float('inf') and x != -float('inf'),
    _rng[0]: lambda x: 0 <= x and x <= 5,
    _len[0]: lambda x: 1 <= len(x) <= 2,
    t.get_args(TYPES['cond_set'])[1]: lambda x: len(x) >= 2,        # (sees the converted set: duplicates gone)
    PH: lambda vals: not (vals['a'] > vals['b']),        # the validation hook of shared.PH
}
for _c in _rng[1:]:
    assert _c is Finite


def check(name, v):
    T = TY[name]
    want, img = S.spec(T, v, PREDS)
    try:
        r = pane.from_data(v, T)
        ok = True
    except ConvertError:
        ok = False
    except Exception as e:
        if crosshair_exc(e):
            raise
        return 5
    if want is None:
        return -3
    if ok and not want:
        return 1
    if want and not ok:
        return 2
    if not ok:
        return -1
    if not S.image_matches(img, r, eqv):
        return 4
    try:
        r2 = pane.from_data(v, T)
    except Exception as e:
        if crosshair_exc(e):
            raise
        return 6
    if not eqv(r, r2):
        return 6
    return 0


def ORACLE(name, v, grp):
    return check(name, v)


for _n in TY:
    try:
        make_converter(TY[_n])
    except Exception:
        pass
    for _s in shared.SAMPLES:
        try:
            check(_n, _s)
        except Exception:
            pass

# generic value domain for every type (shape groups as in props/shared.py), type-directed near-valid values for composites
_GEN = '''
@obligation(pre={pre!r}, witnesses={wit!r}, timeout={timeout}, tiers={tiers!r})
def body_gen_{name}_{grp}({sig}) -> int:
    """{name}: accepts exactly the members, returns the typed image (generic depth-1 values, shape group {grp})"""
    v = {builder}({args}, {vocab})
    return check({name!r}, v)
'''
ACC = dict(shared.ACC)
ACC.update({'tuple_empty': 'A', 'struct_nested': None, 'list_tuple': 'A', 'dict_list': 'A'})
MAPPISH = set(shared.MAPPISH) | {'dict_list', 'mapping', 'struct_nested', 'opt_p1', 'union_p'}
SEQISH = set(shared.SEQISH) | {'list_tuple', 'frozenset', 'deque', 'seq_int', 'mutseq', 'tuple_empty', 'union_p', 'list_union'}
for _n in TY:
    _vocab = repr(VOCAB.get(_n, ('a', 'b', 'zz'))) + (', True' if _n in SMALL else '')
    for _g in 'ABCF':
        if _g == 'B' and _n not in SEQISH:
            continue
        if _g == 'C' and _n not in MAPPISH:
            continue
        if _g == 'F' and _n in shared.NO_F:
            continue
        _wit = []
        if ACC.get(_n, 'A') == _g:
            _wit.append(0)
        if shared.REJ.get(_n, 'A') == _g:
            _wit.append(-1)
        # quick tier: shape group A for every type, the groups that can reach acceptance, the mapping group for dataclasses and
        # structs, the float group for numeric targets; the rest only in the thorough tier
        _quick = (_g == 'A' or ACC.get(_n, 'A') == _g
                  or (_g == 'C' and _n in ('p1', 'p2', 'pal', 'struct', 'pn', 'dict_si', 'pi', 'union_p', 'mapping'))
                  or (_g == 'B' and _n in ('tuple_var', 'pt', 'pi', 'p2', 'list_union', 'seq_int', 'frozenset'))
                  or (_g == 'F' and _n in ('int', 'float', 'bool', 'str', 'union', 'cond_rng', 'cond_pos', 'lit', 'enum_i', 'p1', 'list_int', 'dict_if')))
        _tiers = ('quick', 'thorough') if _quick else ('thorough',)
        if _g == 'F':
            exec(_GEN.format(name=_n, grp=_g, sig=GVF_SIG, args=GVF_ARGS, pre=GVF_PRE, builder='gvf',
                             vocab=repr(VOCAB.get(_n, ('a', 'b', 'zz'))), wit=(), timeout=60, tiers=_tiers))
        else:
            exec(_GEN.format(name=_n, grp=_g, sig=GV_SIG, args=GV_ARGS, pre=GV_PRE[_g], builder='gv', vocab=_vocab,
                             wit=tuple(_wit), timeout=120, tiers=_tiers))

_TD_OK = {'range', 'range_seq', 'tag_int', 'tag_ext', 'tag_adj', 'opt_tag_ext', 'union_tag_adj', 'nested', 'nested_ragged', 'date_text', 'pattern_text',
          'decimal_num', 'fraction_num'}
shared.emit_td(globals(), "accepts exactly the members, typed image",
               names=[k for (k, v) in shared.TD.items() if k not in _TD_OK and v[0] in TY])      # (only converters the reference model judges)


# ------------------------------------------------------------------ equivalent spellings agree with each other

CA = collections.abc
SPELL = {
    'list': (t.List[int], list[int], t.MutableSequence[int], CA.MutableSequence[int]),
    'seq': (t.Sequence[int], CA.Sequence[int], t.Tuple[int, ...], tuple[int, ...]),
    'dict': (t.Dict[str, int], dict[str, int], t.Mapping[str, int], t.MutableMapping[str, int], CA.Mapping[str, int]),
    'opt': (Optional[int], t.Union[int, None], t.Union[None, int]),
    'set': (t.Set[int], set[int], t.MutableSet[int], CA.MutableSet[int]),
    'fset': (t.FrozenSet[int], frozenset[int], CA.Set[int]),
    'tup': (t.Tuple[int, str], tuple[int, str], (int, str)),
    'bare': (t.List, list, t.List[t.Any]),
    'baredict': (t.Dict, dict, t.Dict[t.Any, t.Any], t.Mapping),
    'nested': (t.List[t.Dict[str, int]], list[dict[str, int]], t.List[t.Mapping[str, int]]),
    'bare_tuple': (t.Tuple, tuple, t.Tuple[t.Any, ...], tuple[t.Any, ...], t.Sequence),
    'empty_tuple': (t.Tuple[()], tuple[()]),
}
for _g in SPELL.values():
    for _ty in _g:
        try:
            make_converter(_ty)
        except Exception:
            pass


def check_spellings(group, v):
    first = True
    ok0, r0 = False, None
    for ty in SPELL[group]:
        try:
            r = pane.from_data(v, ty)
            ok = True
        except ConvertError:
            ok, r = False, None
        except Exception as e:
            if crosshair_exc(e):
                raise
            return 5
        if first:
            ok0, r0, first = ok, r, False
        else:
            if ok != ok0:
                return 7
            if ok and not eqv(r, r0):
                return 7
    return 0 if ok0 else -1


_SP = '''
@obligation(pre={pre!r}, witnesses=(0, -1), timeout=120)
def body_spell_{group}({sig}) -> int:
    """equivalent spellings {group} of one type give the same verdict and the same exactly-typed value"""
    v = gv({args}, ('a', 'b', ''))
    return check_spellings({group!r}, v)
'''
for _g in SPELL:
    exec(_SP.format(group=_g, sig=GV_SIG, args=GV_ARGS,
                    pre="(" + GV_PRE['A'] + ") or (" + GV_PRE['B'] + ")"))


@obligation(pre="0 <= first <= 5 and 0 <= second <= 5 and first != second", witnesses=(0,), timeout=240)
def body_generic_history(first: int, second: int) -> int:
    """from_data through a subscripted generic dataclass depends on the type argument only, not on which equal-comparing argument (union members in the other order) was subscripted before"""
    from props import shared as _sh
    n = 0
    a = b = 0
    for k in range(6):
        if first == k:
            a = k
        if second == k:
            b = k
    return _sh.check_generic_history(a, b)


@obligation(pre="0 <= k <= 7 and 0 <= first <= 1", witnesses=(0,), timeout=120)
def body_alias_history(k: int, first: int) -> int:
    """the image under a type does not depend on an equal-comparing type (nested union in the other order; builtin aliases, tuple and dict type literals) having been converted to before"""
    from props import shared as _sh
    return _sh.alias_history(0 if k == 0 else (1 if k == 1 else (2 if k == 2 else (3 if k == 3 else (4 if k == 4 else (5 if k == 5 else (6 if k == 6 else 7)))))), first)


# ------------------------------------------------------------------ generic dataclasses against their hand-written instances
# A subscripted generic dataclass must behave like the class one would write by hand with the type argument substituted
# everywhere the type variable occurs -- also inside typing constructs around ANOTHER generic dataclass (List[GBox[T]], ...).

_TG = t.TypeVar('_TG')
_UG = t.TypeVar('_UG')


class GBox(PaneBase, t.Generic[_TG]):
    value: _TG


class GShelf(PaneBase, t.Generic[_TG]):
    boxes: t.List[GBox[_TG]]
    opt: t.Optional[GBox[_TG]]
    m: t.Dict[str, GBox[_TG]]
    direct: GBox[_TG]
    tup: t.Tuple[GBox[_TG], _TG]
    ann: t.Optional[t.Annotated[_TG, Positive]] = None
    comp: t.Optional[GBox[t.Dict[str, t.List[_TG]]]] = None      # the variable inside a compound ARGUMENT of another generic dataclass


class GPair(PaneBase, t.Generic[_TG, _UG]):
    first: t.List[GBox[_UG]]
    second: t.Union[GBox[_TG], GBox[_UG]]
    third: GShelf[_UG]


def _mono(A, tag):
    """the same three classes written without type variables, for the argument A"""
    ns = {'PaneBase': PaneBase, 't': t, 'A': A, 'Positive': Positive, '__name__': __name__}
    exec(f'''
class MBox_{tag}(PaneBase):
    value: A


class MBoxC_{tag}(PaneBase):
    value: t.Dict[str, t.List[A]]


class MShelf_{tag}(PaneBase):
    boxes: t.List[MBox_{tag}]
    opt: t.Optional[MBox_{tag}]
    m: t.Dict[str, MBox_{tag}]
    direct: MBox_{tag}
    tup: t.Tuple[MBox_{tag}, A]
    ann: t.Optional[t.Annotated[A, Positive]] = None
    comp: t.Optional[MBoxC_{tag}] = None
''', ns)
    return ns[f'MBox_{tag}'], ns[f'MShelf_{tag}']


G_ARGS = (int, float, str, t.Optional[int], t.Union[int, str])
G_MONO = tuple(_mono(A, i) for (i, A) in enumerate(G_ARGS))
G_SHELF = tuple(GShelf[A] for A in G_ARGS)


def _mono_pair(ia, ib):
    (BA, SA) = G_MONO[ia]
    (BB, SB) = G_MONO[ib]
    ns = {'PaneBase': PaneBase, 't': t, 'BA': BA, 'BB': BB, 'SB': SB, '__name__': __name__}
    exec(f'''
class MPair_{ia}_{ib}(PaneBase):
    first: t.List[BB]
    second: t.Union[BA, BB]
    third: SB
''', ns)
    return ns[f'MPair_{ia}_{ib}']


G_PAIRS = ((0, 1), (1, 0), (2, 0), (0, 2), (3, 2))
G_PAIR = tuple(GPair[G_ARGS[a], G_ARGS[b]] for (a, b) in G_PAIRS)
G_MPAIR = tuple(_mono_pair(a, b) for (a, b) in G_PAIRS)
for _x in G_SHELF + G_PAIR + G_MPAIR + tuple(s for (_b, s) in G_MONO):
    make_converter(_x)


def same_shape(a, b):
    """a (through the generic class) and b (through the hand-written class) carry the same exactly-typed field values"""
    if isinstance(a, PaneBase) or isinstance(b, PaneBase):
        if not (isinstance(a, PaneBase) and isinstance(b, PaneBase)):
            return False
        fa = [f.name for f in a.__pane_info__.fields]
        fb = [f.name for f in b.__pane_info__.fields]
        if fa != fb:
            return False
        for n in fa:
            if not same_shape(getattr(a, n), getattr(b, n)):
                return False
        return True
    if type(a) is not type(b):
        return False
    if isinstance(a, (list, tuple)):
        if len(a) != len(b):
            return False
        for (x, y) in zip(a, b):
            if not same_shape(x, y):
                return False
        return True
    if isinstance(a, dict):
        if list(a.keys()) != list(b.keys()):
            return False
        for k in a:
            if not same_shape(a[k], b[k]):
                return False
        return True
    return eqv(a, b)


def shelf_value(k1, i1, s1, k2, i2, s2, shape, ci):
    box1 = {'value': lf(k1, i1, s1, ci)}
    box2 = {'value': lf(k2, i2, s2, ci)}
    v = {'boxes': [box1, box2] if shape % 2 == 0 else [box2], 'opt': None if shape < 2 else box2,
         'm': {} if shape % 3 == 0 else {'k': box2}, 'direct': box1 if shape < 2 else box2,
         'tup': [box1 if shape < 3 else box2, lf(k1, i1, s1, ci)]}
    if shape == 3:
        v['ann'] = lf(k2, i2, s2, ci)
    if shape == 1:
        v['comp'] = {'value': {'k': [lf(k2, i2, s2, ci)]}}
    return v


def generic_vs_mono(G, M, v):
    try:
        rg = pane.from_data(v, G)
        okg = True
    except ConvertError:
        okg = False
    except Exception as e:
        if crosshair_exc(e):
            raise
        return 5
    try:
        rm = pane.from_data(v, M)
        okm = True
    except ConvertError:
        okm = False
    except Exception as e:
        if crosshair_exc(e):
            raise
        return 5
    if okg and not okm:
        return 1
    if okm and not okg:
        return 2
    if not okg:
        return -1
    if not same_shape(rg, rm):
        return 4
    return 0


def run_shelf(ai, k1, i1, s1, k2, i2, s2, shape):
    n = 0
    G = G_SHELF[0]
    M = G_MONO[0][1]
    for x in G_SHELF:
        if n == ai:
            G = x
            M = G_MONO[n][1]
        n += 1
    return generic_vs_mono(G, M, shelf_value(k1, i1, s1, k2, i2, s2, shape, True))


def run_pair(pi, k1, i1, s1, k2, i2, s2, shape):
    n = 0
    G = G_PAIR[0]
    M = G_MPAIR[0]
    for x in G_PAIR:
        if n == pi:
            G = x
            M = G_MPAIR[n]
        n += 1
    a = lf(k1, i1, s1, True)
    b = lf(k2, i2, s2, True)
    v = {'first': [{'value': b}] if shape % 2 == 0 else [], 'second': {'value': a if shape < 2 else b},
         'third': shelf_value(k2, i2, s2, k2, i2, s2, shape, True)}
    return generic_vs_mono(G, M, v)


body_generic_shelf = run_shelf
body_generic_pair = run_pair

_GT_ = '''
@obligation(pre="0 <= k1 <= 4 and 0 <= k2 <= 4 and {lo} <= shape <= {lo} + 1 and -1 <= i1 <= 1 and -1 <= i2 <= 1", witnesses=(0, -1), timeout=480{tiers})
def body_generic_{what}_{ai}_{lo}(k1: int, i1: int, k2: int, i2: int, shape: int) -> int:
    """{doc}"""
    return run_{what}({ai}, k1, i1, 'ab', k2, i2, 'ab', shape)
'''
for (_a, _lo) in [(a, lo) for a in range(5) for lo in (0, 2)]:
    exec(_GT_.format(what='shelf', ai=_a, lo=_lo, tiers='' if _a in (0, 1, 4) else ", tiers=('thorough',)", doc=f"GShelf[{G_ARGS[_a]!r}] (type variable inside List/Optional/Dict/Tuple/Annotated around another generic dataclass) accepts and returns what the hand-written class for that argument does".replace('"', "'")))
    exec(_GT_.format(what='pair', ai=_a, lo=_lo, tiers='' if _a == 0 else ", tiers=('thorough',)", doc=f"GPair over argument pair #{_a} (two type variables, a union of two parameterisations, a nested generic) against the hand-written class"))

for _a in range(5):
    for _k in range(5):
        for _sh in range(4):
            try:
                body_generic_shelf(_a, _k, 1, 'a', 2, 1, 'b', _sh)
                body_generic_pair(_a, _k, 1, 'a', 2, 1, 'b', _sh)
            except Exception:
                pass
