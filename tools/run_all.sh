#!/bin/bash
# tools/run_all.sh <quick|thorough> [ids...]: runs the registered commands one after the other, logs exit code, summary and wall time
T=${1:-quick}; shift
IDS=${@:-C01 C02 C03 C04 C05 C06 C07 C08 C09 C10 C11 C12 C13 C14 C15 C16 C17 C18 C20}
mkdir -p /verif/build
for c in $IDS; do
  s=$(date +%s)
  out=$(cd /verif && ./check $c --tier $T 2>&1); rc=$?
  e=$(date +%s)
  echo "$c tier=$T exit=$rc wall=$((e-s))s :: $(echo "$out" | grep -E '^SUMMARY' | cut -c1-260)"
  echo "$out" | grep -E '^(VIOLATION|HARNESS|INCONCLUSIVE|SPURIOUS|WARNING|KNOWN)' | cut -c1-200 | head -12
done
