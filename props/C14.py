"""C14 -- dataclass construction is conversion; defaults are fresh; set-fields exact."""
import os

HERE = os.path.dirname(os.path.abspath(__file__))


def harness_files(tier, seed):
    files = [os.path.join(HERE, 'hC14.py')]
    if tier == 'thorough':
        # 32 dataclass definitions drawn from a grammar with VERIF_SEED (regenerated at import from the seed)
        os.environ['VERIF_SEED'] = str(seed)
        files.append(os.path.join(HERE, 'hC14g.py'))
    return files


META = dict(
    bounds="supplied subset of fields: symbolic presence bits (keywords) or symbolic prefix length (positional); argument values by "
           "selector over valid / converted-with-change (int->float, tuple->list, mapping->dataclass, typed instance) / wrong-kind "
           "values with symbolic int and str(len<=1) payloads",
    configs="3 dataclass definitions: required+defaults+list factory+Optional with a validation hook; keyword-only fields with alias and "
            "dict/list factories; all-defaults with a nested-dataclass factory; 2 construction paths each compared with their data path",
    stubs=[],
    outside=["quick tier: class definitions are enumerated (10); thorough tier adds 32 definitions drawn from a grammar with VERIF_SEED "
             "(1-4 fields x 7 field types x default kinds x keyword-only / init=False / alias, tuple layout, kw_only, frozen, rename style)"],
    assumptions=["oracle: the paths against each other and against convert(arg, field type); stdlib nothing"],
)
