#!/usr/bin/env python3
"""Regenerates /verif/MANIFEST.json from the table below (kept in one place so it is always valid)."""
import json, os

ALL = [f"C{i:02d}" for i in range(1, 21)]

E1_NOTE = ("Bounded: 'confirmed' means CrossHair exhausted every feasible path of the real pane code inside the bounds listed "
           "in the evidence file (value shapes/lengths, enumerated configurations, stubs); nothing is claimed outside them. "
           "Trusted base: CrossHair 0.0.110 builtin models + z3 5.1, the corrective plugin (engine/chx/plugin.py), the "
           "per-property oracle. Every counterexample is replayed concretely against /repo before it is reported.")

CLAIMED = {
    'C01': dict(text="from_data is executed symbolically for 57 type expressions (to depth 2-3, incl. 8 dataclass shapes, mixin enums, sequence-keyed "
                     "mappings), subscripted generic dataclasses against hand-written monomorphic classes, and 12 groups of "
                     "equivalent spellings on symbolic interchange values (valid, near-valid and arbitrary: the kind at every position is "
                     "a solver variable); on every feasible path the verdict must equal membership under a 200-line reference model written "
                     "from the documentation, the result must be the deep exactly-typed image, a second call must agree, and nothing but "
                     "ConvertError may escape; call histories over equal-comparing types (nested union in the other order) must not matter. "
                     "Thorough: + 24 type expressions of depth 3 drawn from the grammar with VERIF_SEED.",
                design_ref="DESIGN.md 5/C01, 10.4", technique="symbolic execution (CrossHair+z3) vs reference model of the documented rules"),
    'C02': dict(text="The matrix kind(value) x kind(target) x embedding context of the property is checked cell by cell: the value's kind is a "
                     "symbolic selector over 12 kinds with symbolic content, acceptance must coincide with the literal allowed-relation table.",
                design_ref="DESIGN.md 5/C02", technique="symbolic execution (CrossHair+z3) vs allowed-relation table"),
    'C03': dict(text="Symbolic execution of the real try_convert/collect_errors pair of every converter class (64 instances: "
                     "17 classes, 3 tag layouts, both dataclass layouts, hooks, raising predicates/constructors, re.compile "
                     "stubbed) over symbolic interchange values; z3 decides every branch and the obligation is discharged "
                     "only when all paths are exhausted. Oracle is the code against itself, so no spec risk.",
                design_ref="DESIGN.md 5/C03", technique="symbolic execution (CrossHair+z3) of both passes, relational oracle"),
    'C04': dict(text="Symbolic execution of the public entry points (from_data, convert, Converter.convert) over symbolic interchange "
                     "values including adversarial leaves (unhashable/odd-kinded tags, keys, literals; non-dict Mappings; hooks and "
                     "predicates raising any of 9 exception classes; keys / set elements / enum values whose converted image is unhashable; several odd keys of unorderable kinds; converters first reached by the diagnostic pass); the verdict is the class of the escaping exception. Type-building "
                     "clauses are enumerated assertions inside the same run.",
                design_ref="DESIGN.md 5/C04", technique="symbolic execution (CrossHair+z3) of the entry points, exception-class oracle"),
    'C09': dict(text="Symbolic execution of both passes, convert(), into_data() and dataclass construction on symbolic containers "
                     "(CrossHair's list/dict proxies model in-place mutation), with a deep type-tagged snapshot compared before/after on "
                     "every path; includes nested tagged unions, mappings whose reads can insert (defaultdict), and conversions that follow a failed or successful convert()/constructor call (module state).",
                design_ref="DESIGN.md 5/C09", technique="symbolic execution (CrossHair+z3), before/after snapshot oracle"),
    'C11': dict(text="For 27 overlap-rich unions (incl. members left of None that accept None) and their spellings, symbolic values are run through the union and through each member's own "
                     "converter built separately; z3 decides which members accept, and the union must equal the left-most accepting one, "
                     "on every path; serialisation must coincide with an accepting member's; serialisation and alias-order histories, and unions mentioning a type variable after substitution.",
                design_ref="DESIGN.md 5/C11", technique="symbolic execution (CrossHair+z3), member converters as oracle"),
    'C12': dict(text="The tagged-union converter is executed symbolically on mappings assembled from symbolic parts (tag presence/kind, "
                     "body fields, layout malformations) for 7 variant sets (incl. a variant subclassing another, a None tag, a second adjacent key pair) x 3 layouts; z3 explores every feasible combination and the "
                     "result/verdict/error tree must be exactly those of the variant named by the tag (its own converter, built "
                     "separately), and into_data must have the layout's shape and read back, also when the tagged union is a member of Optional/Union/Dict/Tuple or a dataclass field.",
                design_ref="DESIGN.md 5/C12", technique="symbolic execution (CrossHair+z3), variant's own converter as oracle"),
    'C13': dict(text="Each of 35 condition expressions (+7 length conditions, element-type conditions, conditions inside dataclass field types, raising "
                     "predicates, the pure-python broadcasting rule) is executed on a symbolic int / symbolic float (nan, inf and every boundary are the solver's "
                     "choice) and compared with the arithmetic predicate written from the documentation, on every path.",
                design_ref="DESIGN.md 5/C13", technique="symbolic execution (CrossHair+z3) vs arithmetic reference predicates"),
    'C20': dict(engine='pysym',
                text="The real bodies of rename_field/_split_field_name/split_case/_pairwise and the five joiner lambdas are interpreted from "
                     "the AST of /repo/pane/field.py over vectors of symbolic code points (every character AND every separator position is "
                     "a solver variable); for each feasible path the negated property (canonical spelling, idempotence, back-to-snake and "
                     "style pairs, refusal of unsplittable names also on a repeated call, injectivity on pairs, independence of two consecutive calls) is asserted and must be unsat. Bounded by name length.",
                design_ref="DESIGN.md 4 and 5/C20",
                note="Bounded by name length (quick <= 9, thorough <= 12) and ASCII. Trusted: the position-wise models of the str case methods "
                     "and re.split (validated against CPython on every run, exit 2 on mismatch), the 15-line canonical-spelling reference, z3 "
                     "(cvc5 re-decides a sample of the final queries in the thorough tier). Counterexamples are replayed on the real function.",
                technique="AST-level symbolic interpretation of field.py into QF_LIA, z3 unsat per path; cvc5 cross-check"),
    'C14': dict(text="For 10 dataclass definitions (incl. inherited defaults under shadowing attributes, init=False fields with default / factory, a mutable class whose hook assigns) the supplied subset of fields (presence bits / positional prefix length) and the argument "
                     "values are symbolic; on every path the constructor and the data path (mapping / sequence) must agree with each other and "
                     "with convert(arg, field type), unsupplied fields must hold a fresh default (mutating one instance's default must not "
                     "leak into the next), dict(set_only=True) must equal the supplied set, make_unchecked must store verbatim and the "
                     "post-init hook must run once per instance. Thorough: + 32 dataclass definitions drawn from a grammar with VERIF_SEED.",
                design_ref="DESIGN.md 5/C14", technique="symbolic execution (CrossHair+z3), construction paths against each other"),
    'C15': dict(text="For 13 naming/layout configurations (incl. inherited keyword-only fields in the tuple layout, differing input/output styles with aliases, a subclass of a generic specialisation), mapping keys are chosen by the solver from a vocabulary containing every name form "
                     "the class could know plus foreign ones (0..3 keys), sequences have symbolic length and carrier kind; acceptance, "
                     "binding and output are compared with the property's decision table and hand-written name derivation on every path.",
                design_ref="DESIGN.md 5/C15", technique="symbolic execution (CrossHair+z3) vs decision table"),
    'C16': dict(text="Over the full 32-vector option cube (class statements, vector chosen by the solver) with compare/hash/repr=False fields, "
                     "instance pairs with symbolic field values are compared: == vs pairwise field equality, the four ordering operators vs "
                     "tuple order, trichotomy, hash category vs the stdlib dataclass built with the same options, eq => equal hash, frozen "
                     "enforcement, copy/deepcopy/replace preserving value and set-field record, repr.",
                design_ref="DESIGN.md 5/C16", technique="symbolic execution (CrossHair+z3), stdlib dataclass and tuple order as reference"),
    'C17': dict(text="Class hierarchies are generated from descriptors and compared with a reference merge (order, keyword-only placement, "
                     "signature, repr, positional binding); for 21 generic instantiations (incl. declared parameter order, two generic bases, keyword-only fields) the substituted field types are checked "
                     "structurally AND enforced: a symbolic value is placed by the solver in any field (directly or inside List/Dict/"
                     "Optional) and acceptance must equal membership in the substituted type; inherited class options are probed on "
                     "subclasses 1-2 levels down and behind a mixin; generic subscription history. Thorough: + 64 generic hierarchies drawn from a grammar with VERIF_SEED, judged by a reference on type trees.",
                design_ref="DESIGN.md 5/C17", technique="symbolic execution (CrossHair+z3) vs reference merge and substituted-type membership"),
    'C18': dict(text="Every source of a custom converter for int installs a marking converter, so the result names the winner; the sources "
                     "present (16 class families), the call-level form (7) and the nesting are chosen by the solver and every int at every "
                     "depth must carry the mark of the highest-priority present source in both directions; exact-type matching of "
                     "mapping-form handlers, NotImplemented deferral, the place of registered global handlers, one inherited handler at two nesting levels, and dataclasses / ValueOrList reached through unions are checked the same way.",
                design_ref="DESIGN.md 5/C18", technique="symbolic execution (CrossHair+z3) vs the documented total order"),
    'C05': dict(text="For 58 types and 10 dataclass layout/renaming/alias/exclusion configurations (+ unions of same-runtime-type members in sequence, a dataclass and its subclass in one union), symbolic data d is converted, serialised, "
                     "parsed again and serialised again on every feasible path: the serialised form must be interchange data (type-exact), "
                     "read back as the same value, and be stable.",
                design_ref="DESIGN.md 5/C05", technique="symbolic execution (CrossHair+z3), parse-after-serialise oracle"),
    'C06': dict(text="convert(convert(d, T), T) == convert(d, T) for 56 types on symbolic data, and convert(x, T) == x (same type) for 38 kinds "
                     "of natively built typed values (containers of symbolic ints, enum members, nested dataclass instances, "
                     "Fraction/Decimal/dates/paths/patterns by symbolic index) including through a dataclass constructor.",
                design_ref="DESIGN.md 5/C06", technique="symbolic execution (CrossHair+z3), convert against its own input"),
    'C07': dict(text="For 34 types covering every composite converter, rejected symbolic values are run through the diagnostic pass and the "
                     "tree is compared, on every path, with what the element types' own converters (built separately) report for the "
                     "sub-values: children keys = positions rejected on their own, child = element's own tree, missing/extra exact, one "
                     "union child per member in order, leaf.actual = offending value.",
                design_ref="DESIGN.md 5/C07", technique="symbolic execution (CrossHair+z3), element converters as oracle"),
    'C08': dict(text="Error trees are produced by real failing conversions whose shape (one or two of 20 fault sites x 4 wrong kinds) is chosen "
                     "by the solver; rendering must not raise, be stable and leave the tree unchanged, and the text must contain, in nesting "
                     "order, the tokens each injected fault requires (path components, expectation, value, key names, cause message).",
                design_ref="DESIGN.md 5/C08", technique="symbolic execution (CrossHair+z3) over tree shapes, containment oracle"),
    'C10': dict(text="Histories are symbolic: (i) use/drop sequences over 10 type factories under an id() allocator stub that may recycle the "
                     "ids of objects that really died (the solver decides when), every memoised lookup compared with a freshly built "
                     "converter; (ii) order of (type, handler form) calls and of generic subscriptions; (iii) KeyCache.__call__ re-emitted "
                     "from its source as a generator and two calls interleaved by symbolic schedule bits, plus sequential LRU histories "
                     "against a reference LRU.",
                design_ref="DESIGN.md 5/C10", technique="symbolic execution (CrossHair+z3) over histories/schedules, fresh converter as oracle"),
}

NA = {
    'C19': "JSON/YAML codecs are C extensions (json scanner/encoder, libyaml) and OS files: CrossHair realises every value "
           "(NotDeterministic / one concrete sample per path), so a solver decides nothing there; stream-ownership clauses "
           "have no quantified input. See DESIGN.md section 6.",
}


def main():
    checks = []
    for pid in ALL:
        if pid not in CLAIMED:
            continue
        c = CLAIMED[pid]
        checks.append(dict(
            property_id=pid,
            quick_cmd=f"./check {pid} --tier quick",
            thorough_cmd=f"./check {pid} --tier thorough",
            evidence_file=f"/verif/evidence/{pid}.json",
            replay_cmd_template=f"./check {pid} --replay {{path}}",
            engine=c.get('engine', 'chx'),
            level_claimed=dict(category='model_checking', text=c['text'], design_ref=c['design_ref']),
            level_note=c.get('note', E1_NOTE),
            technique=c['technique'],
        ))
    na = []
    for pid in ALL:
        if pid in CLAIMED:
            continue
        na.append(dict(property_id=pid, reason=NA.get(pid, "check not built yet (work in progress; the design is in DESIGN.md section 5)")))
    m = dict(
        version=1,
        setup_cmd="/verif/engine/bootstrap.sh",
        hooks=dict(guard="PANE_VERIF", enable="none needed: all instrumentation is harness-side (module-namespace stubs, generated classes, AST re-emission); PANE_VERIF is reserved and unused",
                   baseline_off_cmd="cd /repo && /venv/bin/python -m pytest -ra -q -p no:cacheprovider --timeout=900 --continue-on-collection-errors",
                   source_commits=[], add_only=True),
        engines=[
            dict(name="chx", path="/verif/engine/chx", serves_properties=[p for p in ALL if p in CLAIMED and CLAIMED[p].get('engine', 'chx') == 'chx'],
                 kind_free_text="CrossHair 0.0.110 symbolic execution of the real pane modules (z3 decides every branch), one subprocess per obligation, corrective plugin, concrete replay of every counterexample"),
            dict(name="pysym", path="/verif/engine/pysym", serves_properties=[p for p in ALL if p in CLAIMED and CLAIMED[p].get('engine') == 'pysym'],
                 kind_free_text="own symbolic interpreter over the AST of /repo/pane/field.py (strings = vectors of z3 Int code points), z3 incremental, cvc5 cross-check"),
        ],
        checks=checks,
        not_applicable=na,
        notes="Exit codes of every check: 0 no violation on anything explored (INCONCLUSIVE obligations are listed and counted in the evidence, never reported as success of that obligation); 1 replayed violation (VIOLATION line); 2 harness error. known_findings.json lists recorded/fixed defects. " +
              'Last complete run of every thorough command (unchanged tree, seed 0, 16 cores, one check at a time; all exit 0, every obligation discharged): C01 243 obligations / 31137 paths / 8m59s; C02 275 obligations / 29724 paths / 8m38s; C03 248 obligations / 24468 paths / 3m48s; C04 200 obligations / 24757 paths / 9m17s; C05 222 obligations / 22742 paths / 4m59s; C06 165 obligations / 18613 paths / 4m29s; C07 93 obligations / 10460 paths / 2m00s; C08 17 obligations / 4285 paths / 8m40s; C09 155 obligations / 23511 paths / 16m43s; C10 21 obligations / 17196 paths / 4m05s; C11 92 obligations / 13169 paths / 4m04s; C12 22 obligations / 4645 paths / 1m07s; C13 47 obligations / 2548 paths / 1m00s; C14 45 obligations / 26298 paths / 7m20s; C15 16 obligations / 3742 paths / 1m06s; C16 15 obligations / 1530 paths / 0m43s; C17 73 obligations / 2988 paths / 1m13s; C18 111 obligations / 3160 paths / 1m38s; C20 33 obligations / 5281 paths / 0m38s; total 90 min. After the nine obligations of round 5 were added, the thorough commands of the affected properties (C02 C04 C06 C07 C09 C11 C12 C14 C20) were run once more: all exit 0, every obligation discharged (e.g. C09 156 obligations in 14m28s, C04 201 in 8m58s).',
    )
    with open('/verif/MANIFEST.json', 'w') as f:
        json.dump(m, f, indent=1)
    print("MANIFEST.json:", len(checks), "checks,", len(na), "not_applicable")


if __name__ == '__main__':
    main()
