"""C04 -- only ConvertError escapes a conversion of interchange data."""
import os

HERE = os.path.dirname(os.path.abspath(__file__))


def harness_files(tier, seed):
    files = [os.path.join(HERE, 'hC04.py')]
    if tier == 'thorough':
        # the 24 depth-3 type expressions drawn from the grammar with VERIF_SEED (props/gen_types.py), under this property's oracle
        os.environ['VERIF_SEED'] = str(seed)
        files.append(os.path.join(HERE, 'hC04g.py'))
    return files


META = dict(
    bounds="generic depth-1 values and type-directed near-valid values of props/shared.py; adversarial leaf (list, dict, "
           "int, str len<=1, None, tuple, bytes, float, [[]]) at 9 positions (top, element, tag, key, body, field), top mapping "
           "optionally a non-dict Mapping; hooks/predicates raising one of 9 exception classes",
    configs="49 converter instances x entry points from_data/convert; 11 adversarial target types; 5 hook-bearing types; "
            "type building: enumerated lists of documented and unsupported types + thorough tier: 24 type expressions of nesting depth 3 drawn from the grammar with VERIF_SEED (props/gen_types.py), type-directed values with 3 symbolic leaf slots, under this property's oracle",
    stubs=["user predicate / __post_init__ raise under a selector (they are inputs of the property)"],
    outside=["from_json/from_yaml entry points (C19's reason)", "MemoryError/KeyboardInterrupt",
             "exceptions from __eq__/__hash__ of hostile objects inside data"],
    assumptions=["oracle: the class of the escaping exception"],
)
