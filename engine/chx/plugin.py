# CrossHair plugin for the pane harnesses (passed with --extra_plugin).
# CrossHair exec()s this file in a namespace that is discarded, so everything lives inside one function.
# Part of the trusted base; see DESIGN.md section 2.2.
def _install():
    import builtins
    import sys
    import time
    from crosshair import core
    from crosshair.core import deep_realize
    from crosshair.tracers import NoTracing

    # (1) print(): keep file= untouched (the stock patch deep-realises kwargs, which COPIES the StringIO
    #     passed as file=, so pane's print_error writes into a copy and str(tree) is '' under tracing).
    orig = builtins.print

    def _print(*a, **kw):
        file = kw.pop('file', None)
        args = deep_realize(a)
        kws = deep_realize(kw)
        with NoTracing():
            orig(*args, file=file, **kws)

    core._PATCH_REGISTRATIONS[orig] = _print

    # (2) never replace a callee by an uninterpreted result: execute the real body
    _orig_consider = core.consider_shortcircuit

    def _consider(fn, sig, bound, subconditions, allow_interpretation):
        if allow_interpretation:
            return None
        return _orig_consider(fn, sig, bound, subconditions, allow_interpretation)

    core.consider_shortcircuit = _consider

    # (3) a method whose explicit __signature__ has NO parameters (pane gives a field-less dataclass the __init__ signature
    #     "()", without self) makes CrossHair's class-condition scan raise IndexError when such a class, or a subclass of it, is
    #     instantiated under the tracer; pane's `except Exception` around instance creation then turns that into a rejection.
    from crosshair import fnutil
    from inspect import Signature
    _orig_sfat = fnutil.set_first_arg_type

    def _set_first_arg_type(sig, first_arg_type):
        if len(sig.parameters) == 0:
            return sig
        return _orig_sfat(sig, first_arg_type)

    fnutil.set_first_arg_type = _set_first_arg_type

    # (5) `d[key]` on a real dict with a key that is not an int/float/str is rewritten by CrossHair into a linear search
    #     (SimpleDict, "won't hash the keys it's given") so that symbolic keys work -- which also turns the TypeError of an
    #     UNHASHABLE key (a list, a tuple holding a list, a dict, a set) into a KeyError.  pane's converters look converted
    #     values up in dicts (enum values, tags), and "unhashable" must surface as it does in CPython.  Keys that are
    #     unhashable by their structure alone (whatever their symbolic leaves are) are left to the real dict.
    from crosshair import opcode_intercept as _oi
    _orig_subscr = _oi.SymbolicSubscriptInterceptor.trace_op

    def _structurally_unhashable(key, depth=0):
        if isinstance(key, (list, dict, set, bytearray)):
            return True
        if depth < 6 and type(key) in (tuple, frozenset):
            for x in key:
                if _structurally_unhashable(x, depth + 1):
                    return True
        return False

    def _subscr(self, frame, codeobj, codenum):
        try:
            if codenum == _oi.BINARY_OP and _oi.frame_op_arg(frame) != 26:
                return
            key = _oi.frame_stack_read(frame, -1)
            container = _oi.frame_stack_read(frame, -2)
            if type(container) is dict and _structurally_unhashable(key):
                return                      # the real dict raises TypeError: unhashable type
        except Exception:
            pass
        return _orig_subscr(self, frame, codeobj, codenum)

    _oi.SymbolicSubscriptInterceptor.trace_op = _subscr

    # (6) the same for CONSTRUCTION: CrossHair's patches of set() / frozenset() build linear-search containers that never hash
    #     their elements, so set([[1]]) succeeds under the tracer; dict(pairs) raises ValueError instead of TypeError.  Elements /
    #     keys that are unhashable by structure raise TypeError as in CPython.
    _orig_set = core._PATCH_REGISTRATIONS.get(builtins.set)
    _orig_frozenset = core._PATCH_REGISTRATIONS.get(builtins.frozenset)
    _orig_dict = core._PATCH_REGISTRATIONS.get(builtins.dict)
    _MISSING = object()

    def _checked_items(itr):
        items = list(itr)
        for x in items:
            if _structurally_unhashable(x):
                raise TypeError(f"unhashable type: '{type(x).__name__}'")
        return items

    if _orig_set is not None:
        def _set(itr=_MISSING):
            if itr is _MISSING:
                return _orig_set()
            return _orig_set(_checked_items(itr))
        core._PATCH_REGISTRATIONS[builtins.set] = _set
    if _orig_frozenset is not None:
        def _frozenset(itr=_MISSING):
            if itr is _MISSING:
                return _orig_frozenset()
            return _orig_frozenset(_checked_items(itr))
        core._PATCH_REGISTRATIONS[builtins.frozenset] = _frozenset
    if _orig_dict is not None:
        from collections.abc import Mapping as _Mapping

        def _dict(*a, **kw):
            if len(a) == 1 and not isinstance(a[0], _Mapping) and not hasattr(a[0], 'keys'):
                pairs = list(a[0])
                for pair in pairs:
                    try:
                        k = pair[0]
                    except Exception:
                        continue
                    if _structurally_unhashable(k):
                        raise TypeError(f"unhashable type: '{type(k).__name__}'")
                return _orig_dict(pairs, **kw)
            return _orig_dict(*a, **kw)
        core._PATCH_REGISTRATIONS[builtins.dict] = _dict

    # (4) solver accounting: count z3 queries and solver time (written at exit by chx_stats)
    try:
        import z3
        import chx_stats
        _orig_check = z3.Solver.check

        def _check(self, *a):
            t0 = time.perf_counter()
            try:
                return _orig_check(self, *a)
            finally:
                chx_stats.STATS['queries'] += 1
                chx_stats.STATS['solver_s'] += time.perf_counter() - t0

        z3.Solver.check = _check
        chx_stats.STATS['plugin'] = 1
    except Exception as e:  # accounting is best effort; never break the analysis
        sys.stderr.write(f"chx plugin: accounting disabled: {e!r}\n")


_install()
