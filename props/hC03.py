"""C03 harness: the fast pass (try_convert) and the diagnostic pass (collect_errors) of every converter agree.

Verdict codes: 1 accepted but an error tree exists; 5 rejected but no error tree (the RuntimeError branch of convert());
2 fast pass raised something other than ParseInterrupt; 4 diagnostic pass raised; 6 convert() disagrees with the two
passes; 3 harness/unexpected exception.  Witness classes: 0 accepted, -1 rejected.
"""
import re
import sys

import pane
from pane.errors import ParseInterrupt
from pane.converters import PatternConverter, DictConverter

from hlib import obligation, crosshair_exc
from props import shared
from props.shared import CONVS

shared.export(globals())
PC = sys.modules['pane.converters']


def agree(conv, v):
    ok = True
    try:
        conv.try_convert(v)
    except ParseInterrupt:
        ok = False
    except Exception as e:
        if crosshair_exc(e):
            raise
        return 2
    try:
        node = conv.collect_errors(v)
    except Exception as e:
        if crosshair_exc(e):
            raise
        return 4
    if ok and node is not None:
        return 1
    if (not ok) and node is None:
        return 5
    return 0 if ok else -1


def agree_convert(conv, v):
    """Same through Converter.convert(): never the RuntimeError branch."""
    try:
        conv.convert(v)
    except pane.ConvertError:
        return -1
    except RuntimeError:
        return 5
    return 0


def ORACLE(name, v, grp):
    conv = CONVS[name]
    r = agree(conv, v)
    if r > 0 or grp in ('B', 'C'):
        return r
    r2 = agree_convert(conv, v)
    if r2 > 0:
        return r2
    if r2 != r:
        return 6
    return r


shared.warm(lambda name, s: ORACLE(name, s, 'A'))
shared.emit(globals(), "fast/diagnostic agreement")
shared.emit_td(globals(), "fast/diagnostic agreement")


# ------------------------------------------------------------------ PatternConverter with re.compile as an environment stub

class _StubRe:
    """Stands in for the `re` module inside pane.converters: compile() returns a pattern or raises an exception of a
    chosen class (DESIGN.md 3.3).  Everything else is forwarded to the real module."""
    error = re.error
    Pattern = re.Pattern

    def __init__(self):
        self.mode = 0

    def compile(self, s, *a):
        if self.mode == 1:
            raise re.error("stub: bad pattern")
        elif self.mode == 2:
            raise OverflowError("stub: repeat count too big")
        elif self.mode == 3:
            raise RecursionError("stub: too deep")
        return re.compile('a')

    def __getattr__(self, k):
        return getattr(re, k)


_STUB = _StubRe()
_PAT = PatternConverter(str)


@obligation(pre="0 <= mode <= 3 and 0 <= kind <= 2", witnesses=(0, -1), timeout=60)
def body_pattern_stub(mode: int, kind: int) -> int:
    """PatternConverter: both passes agree whatever exception class re.compile raises (stubbed environment)"""
    _STUB.mode = mode
    v = 'abc' if kind == 0 else (b'abc' if kind == 1 else 5)
    old = PC.re
    PC.re = _STUB
    try:
        return agree(_PAT, v)
    finally:
        PC.re = old
