#!/bin/bash
# Builds the overlay venv /verif/.venv (python 3.12 of /venv + crosshair-tool + z3 from the offline wheelhouse).
# Idempotent; safe to call concurrently (flock). No network.
set -e
V=/verif/.venv
exec 9>/verif/.bootstrap.lock
flock 9
if [ -x "$V/bin/python" ] && "$V/bin/python" -c "import crosshair, z3, pane" >/dev/null 2>&1; then
  exit 0
fi
rm -rf "$V"
/venv/bin/python -m venv "$V"
SP=$("$V/bin/python" -c "import sysconfig; print(sysconfig.get_paths()['purelib'])")
printf '/venv/lib/python3.12/site-packages\n/repo\n' > "$SP/verif_overlay.pth"
PIP_NO_INDEX=1 "$V/bin/pip" install -q --no-index --find-links /opt/veriftools/wheels crosshair-tool z3-solver >/dev/null
# cvc5 (second-opinion solver for engine E2, thorough tier); best effort
PIP_NO_INDEX=1 "$V/bin/pip" install -q --no-index --find-links /opt/veriftools/wheels cvc5 >/dev/null 2>&1 || echo "bootstrap: cvc5 wheel not installable (cross-check disabled)"
"$V/bin/python" -c "import crosshair, z3, pane; print('bootstrap ok: crosshair', crosshair.__version__ if hasattr(crosshair,'__version__') else '', 'z3', z3.get_version_string())"
