"""C15 -- dataclass data layouts and field-name resolution."""
import os

HERE = os.path.dirname(os.path.abspath(__file__))


def harness_files(tier, seed):
    return [os.path.join(HERE, 'hC15.py')]


META = dict(
    bounds="mappings of 0..3 keys chosen by symbolic selectors from a per-class vocabulary (python names, every alias / in_name / "
           "renamed form in every style, an alias of another field, foreign keys) with symbolic int values; sequences of symbolic "
           "length 0..max+1 and symbolic carrier kind (list, tuple, str, bytes, bytearray, dict)",
    configs="13 naming/layout configurations: plain; aliases + in_names + rename + out_name; class rename='camel' with aliases; "
            "in_rename=(snake,kebab)/out_rename=kebab; allow_extra + exclude; tuple layout with init=False and keyword-only fields; "
            "both layouts with tuple output and exclude; struct-only; inherited keyword-only fields before subclass positional ones (tuple layout); differing "
            "input/output styles with aliases; output-only style; a subclass of a generic specialisation with its own style and aliases",
    stubs=[],
    outside=["configurations are enumerated (8), values are ints (value kinds are C01/C02's subject)"],
    assumptions=["oracle: decision table of the property + name derivation rules of pane/field.py docstrings, hand-written per class (REF)"],
)
