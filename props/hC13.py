"""C13 harness: Annotated[T, c1..cn] accepts exactly when T accepts and every condition holds on the converted value.

Oracle: arithmetic/Boolean predicates written out here from the documentation (DESIGN.md 3.4 (c)).
Verdict codes: 1 accepted although the predicate is false (or T rejects); 2 rejected although T accepts and the predicate
holds; 4 accepted value is not the inner type's converted value; 5 into_data differs from the inner type's; 8 fast and
diagnostic pass disagree; 6 a raising predicate did not give a ConvertError carrying the cause; 7 raw exception;
9 broadcastability predicate differs from the broadcasting rule.
Witness classes: 0 accepted, -1 rejected by the condition, -2 rejected by the inner type.
"""
import math
import sys
import typing as t
from typing import List, Optional, Dict

import pane
from pane.annotations import (Condition, val_range, len_range, Positive, Negative, NonPositive, NonNegative, Finite,
                              Empty, NonEmpty, shape as shape_cond, broadcastable)
from pane.convert import make_converter
from pane.errors import ParseInterrupt, ConvertError, ConditionFailedError
from pane import types as ptypes

from hlib import obligation, crosshair_exc, eqv, cint, OutOfBound

A = t.Annotated


def _fin(x):
    return x == x and x != math.inf and x != -math.inf


# name -> (type, inner type, reference predicate on the converted value)
CONDS = {
    'pos_i': (A[int, Positive], int, lambda x: x > 0),
    'neg_i': (A[int, Negative], int, lambda x: x < 0),
    'nonpos_i': (A[int, NonPositive], int, lambda x: x <= 0),
    'nonneg_i': (A[int, NonNegative], int, lambda x: x >= 0),
    'pos_f': (A[float, Positive], float, lambda x: x > 0),
    'neg_f': (A[float, Negative], float, lambda x: x < 0),
    'nonpos_f': (A[float, NonPositive], float, lambda x: x <= 0),
    'nonneg_f': (A[float, NonNegative], float, lambda x: x >= 0),
    'finite_f': (A[float, Finite], float, _fin),
    'types_posint': (ptypes.PositiveInt, int, lambda x: x > 0),
    'types_nonnegint': (ptypes.NonNegativeInt, int, lambda x: x >= 0),
    'types_negint': (ptypes.NegativeInt, int, lambda x: x < 0),
    'types_nonposint': (ptypes.NonPositiveInt, int, lambda x: x <= 0),
    'types_posfloat': (ptypes.PositiveFloat, float, lambda x: x > 0),
    'types_nonnegfloat': (ptypes.NonNegativeFloat, float, lambda x: x >= 0),
    'types_negfloat': (ptypes.NegativeFloat, float, lambda x: x < 0),
    'types_nonposfloat': (ptypes.NonPositiveFloat, float, lambda x: x <= 0),
    'types_finitefloat': (ptypes.FiniteFloat, float, _fin),
    'rng_i_0_5': (A[int, val_range(min=0, max=5)], int, lambda x: 0 <= x and x <= 5),
    'rng_i_min': (A[int, val_range(min=-1)], int, lambda x: x >= -1),
    'rng_i_max': (A[int, val_range(max=1)], int, lambda x: x <= 1),
    'rng_f_0_5': (A[float, val_range(min=0, max=5)], float, lambda x: 0 <= x and x <= 5),
    'rng_f_half': (A[float, val_range(min=-0.5, max=0.5)], float, lambda x: -0.5 <= x and x <= 0.5),
    'rng_f_min': (A[float, val_range(min=0.5)], float, lambda x: x >= 0.5),
    'and_i': (A[int, Positive & val_range(max=5)], int, lambda x: x > 0 and x <= 5),
    'or_i': (A[int, Negative | val_range(min=5)], int, lambda x: x < 0 or x >= 5),
    'not_i': (A[int, ~Positive], int, lambda x: not (x > 0)),
    'not_f': (A[float, ~Positive], float, lambda x: not (x > 0)),
    'not_finite': (A[float, ~Finite], float, lambda x: not _fin(x)),
    'all_i': (A[int, Condition.all(Positive, val_range(max=5), ~val_range(min=3, max=3))], int, lambda x: x > 0 and x <= 5 and x != 3),
    'any_f': (A[float, Condition.any(Negative, val_range(min=5), Condition.all(Finite, val_range(min=1, max=1)))], float,
              lambda x: x < 0 or x >= 5 or x == 1),
    'multi_i': (A[int, Positive, val_range(max=5)], int, lambda x: x > 0 and x <= 5),
    'multi3_f': (A[float, Finite, NonNegative, val_range(max=0.5)], float, lambda x: _fin(x) and x >= 0 and x <= 0.5),
    'nested_not': (A[int, ~(Positive & ~val_range(min=2, max=3))], int, lambda x: not (x > 0 and not (2 <= x <= 3))),
    'or_and_f': (A[float, (Positive & Finite) | val_range(max=-1)], float, lambda x: (x > 0 and _fin(x)) or x <= -1),
}
CC = {n: make_converter(v[0]) for (n, v) in CONDS.items()}
INNER = {int: make_converter(int), float: make_converter(float)}


def _try(conv, v):
    try:
        return True, conv.try_convert(v)
    except ParseInterrupt:
        return False, None


def check_cond(name, v):
    (ty, inner_ty, spec) = CONDS[name]
    conv = CC[name]
    inner = INNER[inner_ty]
    iok, ix = _try(inner, v)
    ok, r = _try(conv, v)
    node = conv.collect_errors(v)
    if ok != (node is None):
        return 8
    want = False
    if iok:
        if spec(ix):
            want = True
    if ok and not want:
        return 1
    if want and not ok:
        return 2
    if ok:
        if not eqv(r, ix):
            return 4
        if not eqv(conv.into_data(r), inner.into_data(r)):
            return 5
        return 0
    return -1 if iok else -2


def num_value(k, i, f, ci):
    """k: 0 int (symbolic, or 4 classes when the target does float arithmetic on it) | 1 float f | 2 bool | 3 None | 4 str | 5 list"""
    if k == 0:
        return cint(i) if ci else i
    elif k == 1:
        return f
    elif k == 2:
        return True if i > 0 else False
    elif k == 3:
        return None
    elif k == 4:
        return '1'
    else:
        return [1]


for _n in CONDS:
    for _v in (0, 1, -1, 5, 6, 3, 0.5, -0.5, 1.5, float('nan'), float('inf'), -float('inf'), True, None, 'x', [1]):
        try:
            check_cond(_n, _v)
        except Exception:
            pass

_T = '''
@obligation(pre="0 <= k <= 5", witnesses=(0, -1, -2), timeout=90)
def body_cond_{name}(k: int, i: int, f: float) -> int:
    """{name}: accepted iff the inner type accepts and the documented predicate holds on the converted value (boundaries, nan, inf)"""
    return check_cond({name!r}, num_value(k, i, f, {ci}))
'''
for _n in CONDS:
    exec(_T.format(name=_n, ci=repr(CONDS[_n][1] is float)))


# ------------------------------------------------------------------ length conditions, conditions on element types

LCONDS = {
    'len_1_2': (A[List[int], len_range(min=1, max=2)], lambda n: 1 <= n <= 2),
    'len_min2': (A[List[int], len_range(min=2)], lambda n: n >= 2),
    'len_max0': (A[List[int], len_range(max=0)], lambda n: n <= 0),
    'empty': (A[List[int], Empty], lambda n: n == 0),
    'nonempty': (A[List[int], NonEmpty], lambda n: n != 0),
    'listnotempty': (ptypes.ListNotEmpty[int], lambda n: n >= 1),
    'not_empty_and_max': (A[List[int], ~Empty & len_range(max=2)], lambda n: n != 0 and n <= 2),
}
LC = {n: make_converter(v[0]) for (n, v) in LCONDS.items()}
LIST_INT = make_converter(List[int])


def check_len(name, xs):
    conv = LC[name]
    iok, ix = _try(LIST_INT, xs)
    ok, r = _try(conv, xs)
    node = conv.collect_errors(xs)
    if ok != (node is None):
        return 8
    want = iok and LCONDS[name][1](len(xs))
    if ok and not want:
        return 1
    if want and not ok:
        return 2
    if ok:
        if not eqv(r, ix):
            return 4
        if not eqv(conv.into_data(r), LIST_INT.into_data(r)):
            return 5
        return 0
    return -1 if iok else -2


for _n in LCONDS:
    for _v in ([], [1], [1, 2], [1, 2, 3], [1, 'a'], 5):
        try:
            check_len(_n, _v)
        except Exception:
            pass

_TL = '''
@obligation(pre="len(xs) <= 3 and 0 <= bad <= 1", witnesses=(0, -1, -2), timeout=90)
def body_len_{name}(xs: List[int], bad: int) -> int:
    """{name}: length condition on a list of symbolic length 0..3 (optionally with a wrong-kind element)"""
    v = list(xs)
    if bad == 1:
        v = v + ['x']
    return check_len({name!r}, v)
'''
for _n in LCONDS:
    exec(_TL.format(name=_n))


ELEM = {
    'list_pos': make_converter(List[A[int, Positive]]),
    'dict_pos': make_converter(Dict[str, ptypes.PositiveInt]),
    'opt_pos': make_converter(Optional[ptypes.PositiveInt]),
    'tuple_pos_neg': make_converter(t.Tuple[A[int, Positive], A[int, Negative]]),
}
for _c in ELEM.values():
    for _v in ([1], [0], {'a': 1}, {'a': 0}, None, 1, 0, (1, -1), [1, 1]):
        try:
            _c.try_convert(_v)
            _c.collect_errors(_v)
        except Exception:
            pass


@obligation(pre="0 <= which <= 3", witnesses=(0, -1), timeout=90)
def body_elem_conditions(which: int, i: int, j: int) -> int:
    """conditions on element types inside List / Dict / Optional / Tuple restrict each element by the same predicate"""
    if which == 0:
        conv, v, want = ELEM['list_pos'], [i, j], (i > 0 and j > 0)
    elif which == 1:
        conv, v, want = ELEM['dict_pos'], {'a': i, 'b': j}, (i > 0 and j > 0)
    elif which == 2:
        conv, v, want = ELEM['opt_pos'], i, i > 0
    else:
        conv, v, want = ELEM['tuple_pos_neg'], [i, j], (i > 0 and j < 0)
    ok, r = _try(conv, v)
    node = conv.collect_errors(v)
    if ok != (node is None):
        return 8
    if ok and not want:
        return 1
    if want and not ok:
        return 2
    return 0 if ok else -1


# ------------------------------------------------------------------ raising predicates

_SEL = [0]


def _raiser(v):
    s = _SEL[0]
    if s == 1:
        raise ValueError("v")
    elif s == 2:
        raise TypeError("t")
    elif s == 3:
        raise KeyError("k")
    elif s == 4:
        raise ZeroDivisionError("z")
    elif s == 5:
        raise OverflowError("o")
    elif s == 6:
        raise AttributeError("a")
    return v > 0


RAISE = {
    0: make_converter(A[int, Condition(_raiser, 'raiser')]),
    1: make_converter(A[int, Condition(_raiser, 'raiser') & Positive]),
    2: make_converter(A[int, Positive | Condition(_raiser, 'raiser')]),
    3: make_converter(A[int, ~Condition(_raiser, 'raiser')]),
    4: make_converter(List[A[int, Condition(_raiser, 'raiser'), Positive]]),
}


@obligation(pre="0 <= sel <= 6 and 0 <= which <= 4", witnesses=(0, -1), timeout=90)
def body_raising_predicate(sel: int, which: int, i: int) -> int:
    """a predicate that raises (any of 6 exception classes) counts as a failed condition: ConvertError carrying the cause"""
    _SEL[0] = sel
    try:
        conv = RAISE[0] if which == 0 else (RAISE[1] if which == 1 else (RAISE[2] if which == 2 else (RAISE[3] if which == 3 else RAISE[4])))
        v = [i] if which == 4 else i
        # does the predicate get to raise?  (Positive | raiser short-circuits when i > 0)
        raises = sel != 0 and not (which == 2 and i > 0)
        try:
            r = conv.convert(v)
        except ConvertError as e:
            if raises:
                node = e.tree
                if which == 4:
                    node = node.children[0] if hasattr(node, 'children') and 0 in node.children else None
                if not isinstance(node, ConditionFailedError) or node.cause is None:
                    return 6
            return -1
        except Exception as e:
            if crosshair_exc(e):
                raise
            return 7
        if raises:
            return 1
        return 0
    finally:
        _SEL[0] = 0


# ------------------------------------------------------------------ broadcastability (pure-python fallback; numpy hidden)

from pane import util as putil


def ref_broadcastable(a, b):
    """numpy's rule: align right; each pair of extents must be equal, or one of them 1"""
    n = max(len(a), len(b))
    for k in range(1, n + 1):
        x = a[-k] if k <= len(a) else 1
        y = b[-k] if k <= len(b) else 1
        if not (x == y or x == 1 or y == 1):
            return False
    return True


def _shape(n, a, b):
    if n == 0:
        return ()
    elif n == 1:
        return (a,)
    return (a, b)


@obligation(pre="0 <= na <= 2 and 0 <= nb <= 2 and 0 <= a0 <= 3 and 0 <= a1 <= 3 and 0 <= b0 <= 3 and 0 <= b1 <= 3",
            witnesses=(0, -1), timeout=120)
def body_broadcastable(na: int, a0: int, a1: int, nb: int, b0: int, b1: int) -> int:
    """is_broadcastable (pure-python fallback, numpy hidden) agrees with the broadcasting rule on shapes of rank <= 2, extents 0..3"""
    a = _shape(na, a0, a1)
    b = _shape(nb, b0, b1)
    old = sys.modules.get('numpy')
    sys.modules['numpy'] = None          # `import numpy` inside broadcast_shapes now raises ImportError
    try:
        got = putil.is_broadcastable(a, b)
    finally:
        sys.modules['numpy'] = old
    want = ref_broadcastable(a, b)
    if got != want:
        return 9
    return 0 if got else -1


# ------------------------------------------------------------------ the predicate sees the CONVERTED value

class LoHi(pane.PaneBase):
    lo: int
    hi: int


CV = {
    'set': make_converter(A[t.Set[int], len_range(min=2)]),
    'fset': make_converter(A[t.FrozenSet[int], len_range(max=1)]),
    'lohi': make_converter(A[LoHi, Condition(lambda s: s.lo <= s.hi, 'ordered')]),
}
for _v in ([1, 1], [1, 2], {'lo': 1, 'hi': 2}, {'lo': 2, 'hi': 1}, 5):
    for _c in CV.values():
        try:
            _c.try_convert(_v)
            _c.collect_errors(_v)
        except Exception:
            pass


@obligation(pre="0 <= which <= 2 and -1 <= i <= 1 and -1 <= j <= 1", witnesses=(0, -1), timeout=120)
def body_converted_value(which: int, i: int, j: int) -> int:
    """conditions hold on the converted value (a set built from a list with duplicates; a dataclass built from a mapping), in both passes"""
    if which == 0:
        conv, v, want = CV['set'], [i, j], i != j
    elif which == 1:
        conv, v, want = CV['fset'], [i, j], i == j
    else:
        conv, v, want = CV['lohi'], {'lo': i, 'hi': j}, i <= j
    ok, r = _try(conv, v)
    try:
        node = conv.collect_errors(v)
    except Exception as e:
        if crosshair_exc(e):
            raise
        return 7
    if ok != (node is None):
        return 8
    if ok and not want:
        return 1
    if want and not ok:
        return 2
    if not ok:
        # the predicate returned False, it did not raise: no cause may be attached
        if isinstance(node, ConditionFailedError) and node.cause is not None:
            return 6
        return -1
    return 0


# ------------------------------------------------------------------ conditions on dataclass field types (rebuilt by type-variable substitution)

_TC = t.TypeVar('_TC')


class FC(pane.PaneBase):
    x: t.Optional[A[t.Union[int, float], Positive]] = None
    y: t.List[A[int, Positive]] = pane.field(default_factory=list)
    z: t.Dict[str, t.Optional[A[float, NonNegative]]] = pane.field(default_factory=dict)
    w: t.Union[A[t.Union[int, str], Condition(lambda v: v != 0 and v != '', 'truthy')], None] = None


class GC(pane.PaneBase, t.Generic[_TC]):
    x: t.Union[A[_TC, Positive], None] = None
    y: t.List[A[_TC, Positive]] = pane.field(default_factory=list)
    p: A[t.Optional[_TC], Condition(lambda v: v is None or v != 7, 'not 7')] = None


GC_UF = GC[t.Union[int, float]]
GC_I = GC[int]
for _c in (FC, GC_UF, GC_I):
    make_converter(_c)


def field_value(fk, k, i, ci):
    v = None if k == 0 else ((True if i > 0 else False) if k == 1 else ((cint(i) if ci else i) if k == 2 else (fl3(i) if k == 3 else ('ab' if i > 0 else ''))))
    if fk == 0:
        return {'x': v}, v
    elif fk == 1:
        return {'y': [1, v]}, v
    elif fk == 2:
        return {'z': {'k': v}}, v
    elif fk == 3:
        return {'w': v}, v
    else:
        return {'p': v}, v


def _as_int(v):
    """image under int: ints and bools (a bool converts to the int of the same value)"""
    if isinstance(v, int):
        return True, int(v)
    return False, None


def _as_float(v):
    if isinstance(v, (int, float)):
        try:
            return True, float(v)
        except OverflowError:
            return False, None
    return False, None


def _as_num(v):
    """image under Union[int, float]"""
    (ok, x) = _as_int(v)
    if ok:
        return ok, x
    return _as_float(v)


def field_want(ck, fk, v):
    """reference verdict, written from the field declarations above"""
    if ck == 0:       # FC
        if fk == 0:
            (ok, x) = _as_num(v)
            return v is None or (ok and x > 0)
        elif fk == 1:
            (ok, x) = _as_int(v)
            return ok and x > 0
        elif fk == 2:
            (ok, x) = _as_float(v)
            return v is None or (ok and x >= 0)
        elif fk == 3:
            (ok, x) = _as_int(v)
            return v is None or (ok and x != 0) or (type(v) is str and v != '')
        return None
    (ok, x) = _as_int(v) if ck == 2 else _as_num(v)
    if fk == 0:
        return v is None or (ok and x > 0)
    elif fk == 1:
        return ok and x > 0
    elif fk == 4:
        return v is None or (ok and x != 7)
    return None


@obligation(pre="0 <= ck <= 2 and 0 <= fk <= 4 and 0 <= k <= 4 and (fk <= 3 if ck == 0 else fk in (0, 1, 4))", witnesses=(0, -1), timeout=200)
def body_field_conditions(ck: int, fk: int, k: int, i: int) -> int:
    """a condition written inside a dataclass field type (under Optional/Union/List/Dict, around a union, around a type variable) is enforced as written"""
    cls = FC if ck == 0 else (GC_UF if ck == 1 else GC_I)
    (d, v) = field_value(fk, k, i, True)
    want = field_want(ck, fk, v)
    if want is None:
        return -99
    try:
        cls.from_data(d)
        ok = True
    except pane.ConvertError:
        ok = False
    except Exception as e:
        if crosshair_exc(e):
            raise
        return 7
    if ok and not want:
        return 1
    if want and not ok:
        return 2
    return 0 if ok else -1


from hlib import fl3
for _ck in range(3):
    for _fk in range(5):
        for _k in range(5):
            for _i in (0, 1):
                try:
                    body_field_conditions(_ck, _fk, _k, _i)
                except Exception:
                    pass
