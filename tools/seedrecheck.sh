#!/bin/bash
# tools/seedrecheck.sh <seed> ... : re-validate seeds cheaply against the CURRENT harness and the CURRENT /repo HEAD.
# For each seed, the obligation that caught it in its last full run (first "counterexample: ob_<name>(" line of
# build/seedlog/<seed>.log) is run alone (--only) against a scratch worktree with the seed applied; it must still report
# a violation.  Output: one line per seed: RECHECK <seed> <check> <obligation> -> caught | MISSED | no-record | patch-fails
mkdir -p /verif/build/seedrecheck
for N in "$@"; do
  S=/verif/seeded/$N
  L=/verif/build/seedlog/$N.log
  [ -f "$L" ] || { echo "RECHECK $N - - -> no-record"; continue; }
  # pairs (check id, obligation) : the check id is on the preceding "check Cxx with seed" line
  pairs=$(awk '/^check C[0-9]+ with seed/ {c=$2} /^counterexample: (ob|kf)_/ {n=$2; sub(/^(ob|kf)_/, "", n); sub(/\(.*/, "", n); print c" "n}' "$L" | sort -u | head -2)
  [ -n "$pairs" ] || { echo "RECHECK $N - - -> no-record"; continue; }
  W=/tmp/seedre_$N
  git -C /repo worktree remove --force $W >/dev/null 2>&1
  git -C /repo worktree add -q --detach $W HEAD || { echo "RECHECK $N -> worktree-fails"; continue; }
  if ! (cd $W && git apply "$S/patch.diff" 2>/dev/null); then
    echo "RECHECK $N - - -> patch-fails"; git -C /repo worktree remove --force $W >/dev/null 2>&1; continue
  fi
  res="MISSED"
  while read c o; do
    out=$(cd /verif && VERIF_REPO=$W VERIF_JOBS=${SEED_JOBS:-8} ./check $c --tier quick --no-selftest --no-evidence --replay-dir /verif/build/seedreplay/$N --only "$o" 2>&1)
    rc=$?
    echo "$out" > /verif/build/seedrecheck/$N.$c.log
    if [ $rc -eq 1 ]; then res="caught"; echo "RECHECK $N $c $o -> caught"; break; fi
    last="$c $o (exit $rc)"
    # exit 2 with no obligation selected: the obligation of the old log was renamed or split since; that says nothing about the
    # seed (run the whole check with tools/seedtest.sh instead) and must not be reported as a miss
    if [ $rc -eq 2 ] && echo "$out" | grep -q "no obligations selected"; then res="stale-name"; fi
    if [ $rc -ne 1 ] && echo "$out" | grep -q "^SPURIOUS"; then res="spurious"; fi
  done <<< "$pairs"
  case "$res" in
    caught) ;;
    stale-name) echo "RECHECK $N $last -> stale-name" ;;
    spurious) echo "RECHECK $N $last -> SPURIOUS" ;;
    *) echo "RECHECK $N $last -> MISSED" ;;
  esac
  git -C /repo worktree remove --force $W >/dev/null 2>&1
done
