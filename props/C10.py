"""C10 -- results are independent of call history (memoisation is transparent)."""
import os

HERE = os.path.dirname(os.path.abspath(__file__))


def harness_files(tier, seed):
    return [os.path.join(HERE, 'hC10.py')]


META = dict(
    bounds="(i) histories of 5 operations (use / drop, chosen by the solver) over 10 type factories, 4 symbolic id-recycling bits, a "
           "symbolic leaf in the converted value; (ii) 3 (type, handler form) calls in symbolic order + repetition of the first, 6 "
           "types x 7 handler forms; 3 generic subscriptions in symbolic order out of 7; (iii) 2 interleaved KeyCache calls with 8 "
           "symbolic schedule bits, keys in 0..2, maxsize in {None, 1, 2}; sequential LRU histories of 5 calls over 3 keys",
    configs="make_converter memo under an id() allocator stub; from_data with custom= in 7 forms; _make_subclass; KeyCache in both modes",
    stubs=["id(): deterministic allocator that may give the id of an object that has really died (weak reference cleared after "
           "gc.collect()) to the next new object; injected into pane.convert's module namespace, no source change",
           "KeyCache.__call__ re-emitted from its source (ast) as a generator with a preemption point after every statement; "
           "`with self._lock:` blocks atomic; inner_f pure"],
    outside=["true preemptive threading of the recursive make_converter and the real cyclic GC (modelled by (i)/(iii) only)",
             "plain tuple/dict type literals in (i): not weakly referenceable, their death cannot be observed (a dict subclass stands in)",
             "KeyCache(maxsize=0) (KeyError; no caller can pass it)"],
    assumptions=["oracle: make_converter.inner_f(type, handlers): the undecorated factory, i.e. a freshly built converter"],
)
