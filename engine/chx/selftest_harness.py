"""Engine self-test (DESIGN.md 3.5).  Run by the driver before every check; a failure is exit 2."""
import typing as t
from typing import List, Union

import pane
from pane.errors import WrongTypeError
from pane.convert import ConverterHandlers
from pane.converters import data_is_sequence


def st_print_ok(v: int) -> bool:
    """
    post: _ == True
    """
    # plugin fix 1: rendering an error node under the tracer must produce text
    s = str(WrongTypeError('an int', 'x'))
    return len(s) > 0 and 'an int' in s


def st_hash_ok(v: int) -> bool:
    """
    post: _ == True
    """
    # plugin fix 2: a dict store keyed by ConverterHandlers must work under the tracer
    d = {}
    d[(v % 3, ConverterHandlers())] = 1
    return len(d) == 1


def _mutant_data_is_sequence(val):
    # planted mutant of pane.converters.data_is_sequence: the str/bytes exclusion dropped
    return isinstance(val, t.Sequence)


def st_planted_mutant(v: Union[str, List[int]]) -> bool:
    """
    pre: len(v) <= 2
    post: _ == True
    """
    return _mutant_data_is_sequence(v) == data_is_sequence(v)


_TABLE = {(1, 2): 'a', (3, (4, 5)): 'b'}


def st_unhashable_key(v: int) -> int:
    """
    pre: 0 <= v <= 1
    post: _ != 13
    """
    # plugin fix 5: a dict lookup with an unhashable key must raise TypeError under the tracer as it does in CPython
    # (CrossHair's linear-search rewrite of d[key] would turn it into a KeyError); this post-condition must be REFUTED
    key = (3, [4, v])
    try:
        _TABLE[key]
    except KeyError:
        return 0
    except TypeError:
        return 13
    return 1


def st_unhashable_element(v: int) -> int:
    """
    pre: 0 <= v <= 1
    post: _ != 13
    """
    # plugin fix 6: set() / frozenset() of unhashable elements must raise TypeError under the tracer; must be REFUTED
    items = [(1, [2, v])]
    try:
        if v == 0:
            set(x for x in items)
        else:
            frozenset(items)
    except TypeError:
        return 13
    return 0
