#!/bin/bash
# tools/seedbatch.sh "<seed> <checks...>" ...   -- runs seedtest sequentially, logs to build/seedlog/<seed>.log
mkdir -p /verif/build/seedlog
for spec in "$@"; do
  set -- $spec
  s=$1; shift
  VERIF_JOBS=${SEED_JOBS:-6} nice -n 10 /verif/tools/seedtest.sh /verif/seeded/$s "$@" > /verif/build/seedlog/$s.log 2>&1
  echo "== $s: $(grep -E '^check|^tests|^demo|PATCH' /verif/build/seedlog/$s.log | tr '\n' ';')"
done
