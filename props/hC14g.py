"""C14, thorough tier: dataclass definitions drawn from a grammar with VERIF_SEED.

A drawn definition has 1-4 fields; per field: a type (int, float, str, List[int], Optional[int], Dict[str, int], Set[int]), a
default kind (none / plain value / factory), optionally keyword-only, optionally init=False (with a default), optionally an alias;
class options: tuple layout enabled or not, kw_only, frozen or not, a rename style or none.  For every definition the solver
chooses the SUBSET of supplied fields, which supplied field carries a non-first variant of its value (valid-with-conversion or
wrong kind), and the construction path (keywords / positional / mapping data / sequence data).

Reference: written on the descriptor (never read from pane's Field objects): order = positional then keyword-only fields;
an unsupplied field holds its declared default / a fresh product of its factory; the set-field record is the supplied set;
every path builds equal instances or is refused on every path.  Conversion of a single argument is judged by
`pane.convert(v, T)` of the field type (C01 judges that).
Verdict codes: 1 acceptance differs from the reference; 2 paths disagree; 4 an unsupplied field does not hold its default;
5 a default object is shared between instances; 6 set-field record wrong; 10 unexpected exception; 3 the definition itself
could not be built.  Witness classes: 0 built, -1 refused.
"""
import os
import random
import typing as t

import pane
from pane import PaneBase, field, KW_ONLY
from pane.convert import make_converter
from pane.errors import ConvertError

from hlib import obligation, crosshair_exc, eqv, cint

SEED = int(os.environ.get('VERIF_SEED', '0') or 0)
N_DEFS = 32

# type kind -> (annotation source, [valid, valid-after-conversion, wrong kind], default value, factory source)
KINDS = {
    'int': ('int', [5, True, 'x'], 1, None),
    'float': ('float', [2.5, 3, 'x'], 1.5, None),
    'str': ('str', ['zz', 'q', 7], 's', None),
    'list_int': ('t.List[int]', [[1], (2, 3), [1, 'x']], None, 'lambda: [9]'),
    'opt_int': ('t.Optional[int]', [None, 4, 'x'], None, None),
    'dict_si': ('t.Dict[str, int]', [{'k': 1}, {}, {'k': 'x'}], None, "lambda: {'d': 0}"),
    'set_int': ('t.Set[int]', [[1, 2], (3,), ['x']], None, 'lambda: {7}'),
}
STYLES = (None, None, 'camel', 'kebab', 'scream')


def draw(rnd, idx):
    nf = rnd.randint(1, 4)
    opts = []
    tup = rnd.random() < 0.6
    if tup:
        opts.append("in_format=('struct', 'tuple')")
    cls_kw = rnd.random() < 0.15
    if cls_kw:
        opts.append('kw_only=True')
    if rnd.random() < 0.3:
        opts.append('frozen=False')
    style = rnd.choice(STYLES)
    if style:
        opts.append(f"rename={style!r}")
    fields = []
    lines = []
    seen_default = False
    for i in range(nf):
        name = rnd.choice(['a', 'b_c', 'foo_bar', 'x_y']) + str(i)
        kind = rnd.choice(list(KINDS))
        (ann, vals, dflt, fac) = KINDS[kind]
        kw = cls_kw or rnd.random() < 0.15
        has_default = seen_default and not kw or rnd.random() < 0.6 or kw
        args = []
        dk = 'none'
        if has_default:
            if not kw:
                seen_default = True
            if fac is not None:
                args.append(f'default_factory={fac}')
                dk = 'factory'
            else:
                args.append(f'default={dflt!r}')
                dk = 'value'
        if kw and not cls_kw:
            args.append('kw_only=True')
        init = True
        if has_default and rnd.random() < 0.12:
            args.append('init=False')
            init = False
        alias = None
        if init and rnd.random() < 0.2:
            alias = f'al{i}'
            args.append(f"aliases=({alias!r},)")
        lines.append(f"    {name}: {ann}" + (f" = field({', '.join(args)})" if args else ''))
        fields.append(dict(name=name, kind=kind, default=dk, kw=kw, init=init, alias=alias))
    src = f"class D{idx}(PaneBase{''.join(', ' + o for o in opts)}):\n" + '\n'.join(lines) + "\n    def __post_init__(self):\n        HOOK[0] += 1\n"
    ns = dict(PaneBase=PaneBase, field=field, KW_ONLY=KW_ONLY, t=t, HOOK=HOOK)
    try:
        exec(src, ns)
        cls = ns[f'D{idx}']
        make_converter(cls)
    except Exception as e:
        return dict(src=src, cls=None, error=repr(e)[:120])
    pos = [f for f in fields if not f['kw']]
    kws = [f for f in fields if f['kw']]
    return dict(src=src, cls=cls, fields=pos + kws, tuple=tup, style=style)


HOOK = [0]


def draw_all(seed):
    rnd = random.Random(141414 + seed)
    out = []
    tries = 0
    while len(out) < N_DEFS and tries < 400:
        tries += 1
        d = draw(rnd, len(out))
        if d['cls'] is None and ('follows optional' in d['error'] or 'mandatory' in d['error'].lower()):
            continue        # the grammar produced a definition pane refuses by design (required after optional, mandatory kw-only)
        out.append(d)
    return out


DEFS = draw_all(SEED)


def default_of(f):
    (ann, vals, dflt, fac) = KINDS[f['kind']]
    if f['default'] == 'factory':
        return eval(fac)()
    return dflt


def attempt(fn):
    try:
        return ('ok', fn())
    except ConvertError:
        return ('reject', None)
    except TypeError as e:
        if crosshair_exc(e):
            raise
        return ('bind', None)
    except Exception as e:
        if crosshair_exc(e):
            raise
        return ('other', e)


def check(idx, bits, vsel, variant, path):
    D = DEFS[idx]
    if D['cls'] is None:
        return 3
    cls = D['cls']
    fields = D['fields']
    if [f.name for f in cls.__pane_info__.fields] != [f['name'] for f in fields]:
        return 1
    init_fields = [f for f in fields if f['init']]
    positional = path in (1, 3)
    # supplied subset: by bits; positional paths supply a prefix of the positional init fields
    supplied = []
    n = 0
    for f in init_fields:
        if positional:
            if not f['kw'] and n < bits:
                supplied.append(f)
        elif (bits >> n) % 2 == 1:
            supplied.append(f)
        n += 1
    for f in init_fields:          # required fields are always supplied on keyword paths (else: a plain binding error)
        if f['default'] == 'none' and f not in supplied and not positional:
            supplied.append(f)
    if positional and not D['tuple'] and path == 3:
        return -99
    kw = {}
    all_ok = True
    exp = {}
    n = 0
    for f in supplied:
        vals = KINDS[f['kind']][1]
        v = vals[variant] if n == vsel else vals[0]
        if f['kind'] == 'int' and n == vsel and variant == 0:
            v = 5
        kw[f['name']] = v
        try:
            exp[f['name']] = pane.convert(v, cls.__pane_info__.fields[[g['name'] for g in fields].index(f['name'])].type)
        except ConvertError:
            all_ok = False
        n += 1
    missing_required = any(f['default'] == 'none' and f['name'] not in kw for f in init_fields)
    h0 = HOOK[0]
    if path == 0:
        r = attempt(lambda: cls(**kw))
        r2 = attempt(lambda: cls(**kw))
    elif path == 1:
        args = [kw[f['name']] for f in supplied]
        r = attempt(lambda: cls(*args))
        r2 = attempt(lambda: cls(*args))
    elif path == 2:
        r = attempt(lambda: cls.from_data(dict(kw)))
        r2 = attempt(lambda: cls.from_data(dict(kw)))
    else:
        args = [kw[f['name']] for f in supplied]
        r = attempt(lambda: cls.from_data(list(args)))
        r2 = attempt(lambda: cls.from_data(tuple(args)))
    if r[0] == 'other' or r2[0] == 'other':
        return 10
    should = all_ok and not missing_required
    if not should:
        if r[0] == 'ok' or r2[0] == 'ok':
            return 1
        if path >= 2 and r[0] != 'reject':
            return 10
        return -1
    if r[0] != 'ok' or r2[0] != 'ok':
        return 1
    (x, y) = (r[1], r2[1])
    if HOOK[0] - h0 != 2:
        return 8
    for inst in (x, y):
        for f in fields:
            got = getattr(inst, f['name'])
            if f['name'] in kw:
                if not eqv(got, exp[f['name']]):
                    return 2
            elif not eqv(got, default_of(f)):
                return 4
        if set(inst.dict(set_only=True).keys()) != set(kw.keys()):
            return 6
    if not (x == y):
        return 2
    for f in fields:
        if f['name'] not in kw and f['default'] == 'factory':
            if getattr(x, f['name']) is getattr(y, f['name']):
                return 5
    return 0


for _i in range(len(DEFS)):
    for _p in range(4):
        for _b in (0, 1, 3, 15):
            for _v in range(3):
                try:
                    check(_i, _b, 0, _v, _p)
                except Exception:
                    pass

_T = '''
@obligation(pre="0 <= bits <= 15 and 0 <= vsel <= 3 and 0 <= variant <= 2 and 0 <= path <= 3", witnesses=(), timeout=240, tiers=('thorough',))
def body_definition_{idx}(bits: int, vsel: int, variant: int, path: int) -> int:
    """seeded dataclass definition #{idx} (seed {seed}): {desc}"""
    b = 0
    for n in range(16):
        if bits == n:
            b = n
    return check({idx}, b, 0 if vsel == 0 else (1 if vsel == 1 else (2 if vsel == 2 else 3)), 0 if variant == 0 else (1 if variant == 1 else 2),
                 0 if path == 0 else (1 if path == 1 else (2 if path == 2 else 3)))
'''
for _i in range(len(DEFS)):
    exec(_T.format(idx=_i, seed=SEED, desc=' / '.join(DEFS[_i]['src'].split('\n')[:6]).replace('"', "'").replace('\\', '')[:170]))
