"""C06 -- typed values are fixed points of convert."""
import os

HERE = os.path.dirname(os.path.abspath(__file__))


def harness_files(tier, seed):
    files = [os.path.join(HERE, 'hC06.py')]
    if tier == 'thorough':
        # the 24 depth-3 type expressions drawn from the grammar with VERIF_SEED (props/gen_types.py), under this property's oracle
        os.environ['VERIF_SEED'] = str(seed)
        files.append(os.path.join(HERE, 'hC05g.py'))
    return files


META = dict(
    bounds="(i) data d: the generic depth-1 and type-directed values of props/shared.py; (ii) natively built values with symbolic int "
           "contents in -1..1 (set/hash realisation), enum members, dataclass instances built with make_unchecked alone and nested in "
           "List/Dict/Optional/Union/another dataclass; Fraction/Decimal/date/datetime/time/path/compiled pattern chosen by a symbolic "
           "index from a concrete vocabulary",
    configs="56 types of the shared table x idempotence; 40 kinds of natively built values (incl. conditioned Fraction/date/Decimal/Set) x convert + dataclass constructor (Holder); "
            "Range (3 constructions) + thorough tier: 24 type expressions of nesting depth 3 drawn from the grammar with VERIF_SEED (props/gen_types.py), type-directed values with 3 symbolic leaf slots, under this property's oracle",
    stubs=[],
    outside=["symbolic contents of Fraction/Decimal/datetime/path/pattern values (stdlib parsers realise them)",
             "externally/adjacently tagged unions (excluded by the statement)"],
    assumptions=["oracle: convert(x, T) against x itself, type-exact, NaN-aware"],
)
