"""C08 -- error messages are total and complete."""
import os

HERE = os.path.dirname(os.path.abspath(__file__))


def harness_files(tier, seed):
    return [os.path.join(HERE, 'hC08.py')]


META = dict(
    bounds="tree SHAPE symbolic: up to two simultaneous faults chosen by the solver among 15 fault sites x 4 wrong kinds (str, list, float, "
           "None); leaves are concrete sentinels (rendering realises symbolic values, and the renderer's control flow depends on "
           "shape only); nesting <= 4, union width <= 3",
    configs="one rich target type: struct of (dataclass with nested dataclass, list of Union[int, dataclass], 3-member union, aliased "
            "field, tuple layout) + condition with failing/raising predicate + 3-level nested struct (fused chain) + Tuple[int, List[int]] + a struct with an aliased required field + a union of two parameterisations of one generic dataclass + "
            "a set whose construction fails + a struct chain with a required field in the middle; 20 fault sites, one or two at once (thorough: three at once)",
    stubs=["validation hook and predicate raise on the sentinel value 13 (they are inputs of the property)"],
    outside=["iteration order of missing/extra *sets* across processes (hash randomisation)", "symbolic leaf values"],
    assumptions=["oracle: containment rules written from the property statement: each injected fault lists the tokens the text must show, in order"],
)
