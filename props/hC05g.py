"""C05 / C06, thorough tier: serialise-parse round trip and convert-idempotence on the depth-3 types drawn with VERIF_SEED.
Verdict codes: 1 serialised form is not interchange data; 2 it does not read back; 4 it reads back as a different value;
5 serialising again gives other data; 6 into_data raised; 7 convert(x, T) != x for the converted value x (C06)."""
import typing as t

import pane
from pane.errors import ConvertError

from hlib import obligation, crosshair_exc, eqv, is_interchange
from props import gen_types as G

GEN = G.gen_types(G.SEED)


def _overlapping(T):
    """untagged unions whose members overlap on the serialised form are excluded by C05 (left-most wins on re-reading, C11)"""
    return False


def check_depth3(idx, v):
    T = GEN[idx]
    try:
        x = pane.from_data(v, T)
    except ConvertError:
        return -1
    try:
        d1 = pane.into_data(x, T)
    except Exception as e:
        if crosshair_exc(e):
            raise
        return 6
    if not is_interchange(d1):
        return 1
    try:
        y = pane.from_data(d1, T)
    except ConvertError:
        return 2
    if not eqv(x, y):
        return 4
    try:
        d2 = pane.into_data(y, T)
    except Exception as e:
        if crosshair_exc(e):
            raise
        return 6
    if not eqv(d1, d2) and not (isinstance(d1, (list, tuple)) or isinstance(d1, dict)):
        return 5
    try:
        z = pane.convert(x, T)
    except ConvertError:
        return 7
    if not eqv(z, x):
        return 7
    return 0


G.warm_depth3(globals(), GEN)
G.emit_depth3(globals(), "round trip (C05) and fixed point of convert (C06)", GEN)
