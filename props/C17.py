"""C17 -- inheritance and generics resolve fields, order and types correctly."""
import os

HERE = os.path.dirname(os.path.abspath(__file__))


def harness_files(tier, seed):
    files = [os.path.join(HERE, 'hC17.py')]
    if tier == 'thorough':
        # 64 generic hierarchies drawn from a grammar with VERIF_SEED (regenerated at import from the seed)
        os.environ['VERIF_SEED'] = str(seed)
        files.append(os.path.join(HERE, 'hC17g.py'))
    return files


META = dict(
    bounds="values: a symbolic leaf (6 kinds) placed by the solver in any field of a generic instantiation, directly or inside its "
           "List / Dict / Optional, through from_data and through the constructor; symbolic ints for ordering/option probes",
    configs="6 plain hierarchies (20 classes: a keyword-only field in the middle with field-less leaves, override in place, kw_only option inherited/overridden over 4 levels, KW_ONLY sentinel "
            "with redeclaration, non-pane mixin first/last, diamond) checked against a reference merge; 21 generic instantiations (incl. declared Generic[...] order, two generic bases, keyword-only fields, a type variable inside a compound argument, permuted re-use of type variable names, partial binding, a generic dataclass as a field type of another) "
            "(depth <= 3: bound, forwarded, re-parameterised two-parameter, field-less forwarding, nested forwarding); option "
            "inheritance over 3 levels + mixin (layouts, rename, allow_extra, frozen, custom)",
    stubs=[],
    outside=["quick tier: hierarchies are enumerated programs; thorough tier adds 64 generic hierarchies drawn from a grammar with VERIF_SEED "
             "(two levels, 1-5 fields, type trees of depth 2 over two variables incl. two generic dataclasses as constructors, four instantiation "
             "modes) judged by a reference on type trees"],
    assumptions=["oracle: reference merge (props/hC17.py ref_merge) + expected substituted types per instantiation"],
)
