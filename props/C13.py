"""C13 -- conditions restrict exactly by their predicate."""
import os

HERE = os.path.dirname(os.path.abspath(__file__))


def harness_files(tier, seed):
    return [os.path.join(HERE, 'hC13.py')]


META = dict(
    bounds="value: symbolic int (unbounded) / symbolic float (all floats incl. nan, +-inf) / bool / None / str / list by selector; "
           "for float targets an int input is one of -1, 0, 1, 7 (float(symbolic int) is modelled inexactly by CrossHair); lists of "
           "symbolic length 0..3; shapes of rank <= 2 with extents 0..3",
    configs="35 condition expressions (all stock conditions on int and float, pane.types aliases, val_range with concrete thresholds "
            "{-1,-0.5,0,0.5,1,3,5}, & | ~ all any to depth 3, several conditions in one Annotated); 7 length conditions; conditions on "
            "element types in List/Dict/Optional/Tuple; raising predicates x 6 exception classes x 5 embeddings; conditions inside the field types of plain and generic dataclasses",
    stubs=["numpy hidden (sys.modules['numpy'] = None) for the broadcastability obligation: pane's pure-python fallback is the subject"],
    outside=["thresholds are concrete (a symbolic threshold is realised by Condition.__hash__ when Annotated[...] is built)",
             "numpy-backed shape()/broadcastable() on real arrays (C boundary)"],
    assumptions=["oracle: arithmetic predicates written from the documentation (props/hC13.py, CONDS table)"],
)
