"""C01, thorough tier: type expressions of nesting depth 3 drawn from the type grammar with VERIF_SEED (props/gen_types.py),
checked against the reference model props/spec.py on type-directed values with three symbolic leaf slots.
Verdict codes as in hC01.  Witness classes: 0 accepted, -1 rejected.
"""
import pane
from pane.annotations import Positive
from pane.errors import ConvertError

from hlib import obligation, crosshair_exc, eqv
from props import spec as S
from props import gen_types as G

PREDS = {Positive: lambda x: x > 0}
GEN = G.gen_types(G.SEED)


def check_depth3(idx, v):
    T = GEN[idx]
    want, img = S.spec(T, v, PREDS)
    try:
        r = pane.from_data(v, T)
        ok = True
    except ConvertError:
        ok = False
    except Exception as e:
        if crosshair_exc(e):
            raise
        return 5
    if want is None:
        return -3
    if ok and not want:
        return 1
    if want and not ok:
        return 2
    if not ok:
        return -1
    if not S.image_matches(img, r, eqv):
        return 4
    return 0


check = check_depth3
G.warm_depth3(globals(), GEN)
G.emit_depth3(globals(), "accepts exactly the members of the type, returns the typed image (reference model)", GEN)
