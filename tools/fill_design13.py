#!/usr/bin/env python3
"""Replaces the seed summary table of DESIGN.md section 13 (between the marker comments) with the current output of seedreport.py."""
import re, subprocess
out = subprocess.run(['/verif/.venv/bin/python', '/verif/tools/seedreport.py'], capture_output=True, text=True).stdout
lines = out.split('\n')
i = next(k for (k, l) in enumerate(lines) if l.startswith('| property |'))
table = '\n'.join(l for l in lines[i:] if l.startswith('|'))
head = '\n'.join(l for l in lines[:i] if l.strip() and not l.startswith('  MISSED'))
block = ("<!-- SEED_SUMMARY_BEGIN -->\n```\n" + head + "\n```\n\n" + table + "\n<!-- SEED_SUMMARY_END -->")
p = '/verif/DESIGN.md'
s = open(p).read()
if 'SEED_SUMMARY_TABLE' in s:
    s = s.replace('SEED_SUMMARY_TABLE', block)
else:
    s = re.sub(r'<!-- SEED_SUMMARY_BEGIN -->.*?<!-- SEED_SUMMARY_END -->', lambda m: block, s, flags=re.S)
open(p, 'w').write(s)
print(head)
