#!/verif/.venv/bin/python
# Replay of a counterexample found by CrossHair for property C03, obligation pattern_stub.
# Runs the harness body concretely (no tracer) against /repo's current working tree.
# Exit 1 and "REPLAY code=<n>" with n > 0 means the violation reproduces.
import os, sys
os.environ['CHX_REPLAY'] = '1'
sys.path[:0] = ['/verif/engine/chx', '/verif']
from chx_replay import replay
sys.exit(replay('C03', 'quick', 0, 'hC03.py', 'body_pattern_stub', 'ob_pattern_stub(3, 0)'))
