"""C16 -- dataclass value semantics: equality, order, hash, frozen, copy."""
import os

HERE = os.path.dirname(os.path.abspath(__file__))


def harness_files(tier, seed):
    return [os.path.join(HERE, 'hC16.py')]


META = dict(
    bounds="instance pairs with symbolic int field values (unbounded for ==/order, -2..2 where hash() is taken: hashing realises); "
           "which field is assigned/deleted, which copy operation, which fields were explicitly set: symbolic",
    configs="the full option cube eq x order x frozen x unsafe_hash x explicit __hash__ (32 classes, created by class statements at "
            "import, the solver picks the vector) with per-field compare=False / hash=False / repr=False; stdlib dataclass twins for "
            "the 16 (eq, frozen, unsafe_hash, explicit) vectors; a generic class for 'ignoring generic parameters' with concrete subclasses of a parameterisation; copies with their own set-field record",
    stubs=[],
    outside=["float fields with nan (x == x is false by the statement's own definition of equality)", "fields of unorderable types"],
    assumptions=["oracle: tuple comparison of the compare-fields; dataclasses.dataclass for the hash rule table"],
)
