"""C12 harness: tagged unions dispatch on the tag alone; the three layouts are symmetric.

Oracle: the chosen variant's OWN converter (built separately), the layout shapes of the documentation.
Verdict codes: 1 acceptance differs from the tagged variant's own verdict on the body (something other than the tag
decided); 2 result is not an instance of the variant named by the tag; 4 result differs from the variant's own
from_data(body); 5 error tree is not the variant's own tree for the body; 6 accepted although the tag is unknown / absent /
ill-kinded or the layout malformed; 7 into_data does not have the layout's shape; 8 fast and diagnostic pass disagree;
9 into_data output does not read back as the same value; 10 raw exception instead of a rejection; 11 error text does
not name the tag; 12/13 duplicate tag values not refused at type-building time.
Witness classes: 0 accepted, -1 rejected by the variant (known tag), -2 rejected for the tag/layout.
"""
import sys
import typing as t
from typing import Literal, Optional, List

import pane
from pane import PaneBase, field
from pane.annotations import Tagged
from pane.convert import make_converter
from pane.errors import ParseInterrupt, ConvertError

from hlib import obligation, crosshair_exc, eqv, tree_eq, lf


class VX(PaneBase):
    t: Literal['x'] = 'x'
    a: int = 0


class VY(PaneBase):
    t: Literal['y'] = 'y'
    a: str = ''


class VZ(PaneBase):
    t: Literal['z'] = 'z'
    a: int = 0          # same body as VX: only the tag can tell them apart
    b: int = 0


class VNn(PaneBase):
    """a variant whose declared tag is None"""
    t: None = None
    a: int = 0


class W1(PaneBase):
    k: Literal[1] = 1
    a: int = 0


class W2(PaneBase):
    k: Literal[2] = 2
    a: int = 0


class WS(PaneBase):
    k: Literal['s'] = 's'
    a: int = 0


class HB(PaneBase):
    t: Literal['hb'] = 'hb'
    a: int = 0


class HD(HB):
    """a variant that SUBCLASSES another variant, declared after it"""
    t: Literal['hd'] = 'hd'
    b: int = 0


SETS = {
    'h': dict(tag='t', variants=(HB, HD, VY), adj=('t', 'c')),
    's': dict(tag='t', variants=(VX, VY, VZ), adj=('t', 'c')),
    'i': dict(tag='k', variants=(W1, W2), adj=('k', 'v')),
    'm': dict(tag='k', variants=(W1, WS), adj=('k', 'v')),      # tags of mixed kind: 1 and 's'
    'a': dict(tag='t', variants=(VX, VY, VZ), adj=('type', 'data')),
    'n': dict(tag='t', variants=(VX, VNn), adj=('t', 'c')),              # one declared tag is None   # the union and tag of 's' under a SECOND adjacent key pair
}
LAYOUTS = {'int': False, 'ext': True, 'adj': None}
CONV = {}
TY = {}
VCONV = {}
for (_sn, _s) in SETS.items():
    for (_ln, _ext) in LAYOUTS.items():
        ext = _s['adj'] if _ext is None else _ext
        TY[(_sn, _ln)] = t.Annotated[t.Union[_s['variants']], Tagged(_s['tag'], external=ext)]
        CONV[(_sn, _ln)] = make_converter(TY[(_sn, _ln)])
    for _v in _s['variants']:
        VCONV[_v] = make_converter(_v)
# the same three layouts of set 's' followed by a (vacuous) condition: Annotated[Union[..], Tagged(..), Condition]
from pane.annotations import Condition
_ALWAYS = Condition(lambda v: True, 'always')
SETS['c'] = dict(SETS['s'])
for (_ln, _ext) in LAYOUTS.items():
    ext = SETS['c']['adj'] if _ext is None else _ext
    CONV[('c', _ln)] = make_converter(t.Annotated[t.Union[SETS['c']['variants']], Tagged('t', external=ext), _ALWAYS])


def tag_of(sn, tk):
    """tag kinds per variant set; 1..3 are (or would be) declared tags, the rest foreign / ill-kinded"""
    if sn == 'n':
        if tk == 1:
            return 'x'
        elif tk == 2:
            return None             # a declared tag
        elif tk == 3 or tk == 4:
            return 'q'
        elif tk == 5:
            return 1
        elif tk == 6:
            return 0
        elif tk == 7:
            return ['x']
        else:
            return {}
    if sn == 's' or sn == 'h' or sn == 'c' or sn == 'a':
        if tk == 1:
            return 'x' if sn != 'h' else 'hb'
        elif tk == 2:
            return 'y'
        elif tk == 3:
            return 'z' if sn != 'h' else 'hd'
        elif tk == 4:
            return 'q'
        elif tk == 5:
            return 1
        elif tk == 6:
            return None
        elif tk == 7:
            return ['x']
        else:
            return {}
    else:
        if tk == 1:
            return 1
        elif tk == 2:
            return 2 if sn == 'i' else 's'
        elif tk == 3:
            return 3
        elif tk == 4:
            return 'x'
        elif tk == 5:
            return 's' if sn == 'i' else 2
        elif tk == 6:
            return None
        elif tk == 7:
            return [1]
        else:
            return {}


def variant_of(sn, tk):
    """the variant class whose DECLARED tag equals tag kind tk, else None (reference: the class definitions above)"""
    if sn == 'n':
        if tk == 1:
            return VX
        elif tk == 2:
            return VNn
        return None
    if sn == 's' or sn == 'c' or sn == 'a':
        if tk == 1:
            return VX
        elif tk == 2:
            return VY
        elif tk == 3:
            return VZ
        return None
    if sn == 'h':
        if tk == 1:
            return HB
        elif tk == 2:
            return VY
        elif tk == 3:
            return HD
        return None
    if tk == 1:
        return W1
    elif tk == 2:
        return W2 if sn == 'i' else WS
    return None


def body_of(ha, ka, ia, sa, hb, he):
    d = {}
    if ha:
        d['a'] = lf(ka, ia, sa)
    if hb:
        d['b'] = 1
    if he:
        d['zz'] = 1
    return d


def build(sn, ln, tk, bk, ha, ka, ia, sa, hb, he, shape):
    """returns (value, body given to the variant, well-formed layout?)"""
    s = SETS[sn]
    body = body_of(ha, ka, ia, sa, hb, he) if bk == 0 else lf(ka, ia, sa)
    if ln == 'int':
        if shape == 1:
            return lf(ka, ia, sa), None, False
        if bk != 0:
            return [body], None, False
        d = dict(body)
        if tk != 0:
            d[s['tag']] = tag_of(sn, tk)
        return d, body, tk != 0
    elif ln == 'ext':
        if shape == 1:
            return {}, None, False
        elif shape == 3:
            return lf(ka, ia, sa), None, False
        d = {tag_of(sn, tk): body}
        if shape == 2:
            d['other'] = {}
            return d, None, False
        return d, body, True
    else:
        (tr, cr) = s['adj']
        tag = tag_of(sn, tk)
        if shape == 0:
            return {tr: tag, cr: body}, body, True
        elif shape == 1:
            return {tr: tag}, None, False
        elif shape == 2:
            return {cr: body}, None, False
        elif shape == 3:
            return {tr: tag, cr: body, 'zz': 1}, None, False
        elif shape == 4:
            return {tr: tag, 'zz': body}, None, False
        else:
            return lf(ka, ia, sa), None, False


def _try(conv, v):
    try:
        return True, conv.try_convert(v), None
    except ParseInterrupt:
        return False, None, None
    except Exception as e:
        if crosshair_exc(e):
            raise
        return False, None, e


def shape_ok(sn, ln, cls, d):
    s = SETS[sn]
    tagval = getattr(cls, s['tag'])
    if not isinstance(d, dict):
        return False
    if ln == 'int':
        return s['tag'] in d and eqv(d[s['tag']], tagval) and 'a' in d
    elif ln == 'ext':
        return len(d) == 1 and tagval in d and isinstance(d[tagval], dict) and 'a' in d[tagval]
    else:
        (tr, cr) = s['adj']
        return len(d) == 2 and tr in d and cr in d and eqv(d[tr], tagval) and isinstance(d[cr], dict) and 'a' in d[cr]


def check_tagged(sn, ln, tk, v, body, wellformed):
    U = CONV[(sn, ln)]
    ok, r, exc = _try(U, v)
    if exc is not None:
        return 10
    try:
        node = U.collect_errors(v)
    except Exception as e:
        if crosshair_exc(e):
            raise
        return 10
    if ok != (node is None):
        return 8
    cls = variant_of(sn, tk) if wellformed else None
    if cls is not None:
        vconv = VCONV[cls]
        vok, vr, vexc = _try(vconv, body)
        if vexc is not None:
            return 3
        if ok != vok:
            return 1
        if ok:
            if type(r) is not cls:
                return 2
            if not eqv(r, vr):
                return 4
        else:
            if not tree_eq(node, vconv.collect_errors(body)):
                return 5
            return -1
    else:
        if ok:
            return 6
        return -2
    # serialisation writes exactly the layout that parsing reads
    try:
        d = U.into_data(r)
    except Exception as e:
        if crosshair_exc(e):
            raise
        return 7
    if not shape_ok(sn, ln, cls, d):
        return 7
    ok2, r2, exc2 = _try(U, d)
    if not ok2 or not eqv(r2, r):
        return 9
    return 0


for _k in CONV:
    for _tk in range(0, 9):
        for _args in ((0, True, 2, 1, '', False, False, 0), (0, True, 4, 0, 'q', True, True, 0), (1, False, 0, 0, '', False, False, 0),
                      (0, False, 0, 0, '', False, False, 1), (0, False, 0, 0, '', False, False, 3)):
            try:
                if _k[1] == 'ext' and _tk in (7, 8):
                    continue
                _v, _b, _wf = build(_k[0], _k[1], _tk, *_args)
                check_tagged(_k[0], _k[1], _tk, _v, _b, _wf)
            except Exception:
                pass

_SIG = "tk: int, bk: int, ha: bool, ka: int, ia: int, sa: str, hb: bool, he: bool, shape: int"
_ARGS = "tk, bk, ha, ka, ia, sa, hb, he, shape"
_T = '''
@obligation(pre={pre!r}, witnesses=(0, -1, -2), timeout=150, tiers={tiers!r})
def body_tag_{sn}_{ln}({sig}) -> int:
    """tagged union, variant set '{sn}', layout '{ln}': the tag alone selects the variant; layouts symmetric"""
    v, body, wf = build({sn!r}, {ln!r}, {args})
    return check_tagged({sn!r}, {ln!r}, tk, v, body, wf)
'''
# fault budget (DESIGN.md 3.1): the body varies freely only under a declared tag in a well-formed layout
_PRE = {
    'int': "0 <= tk <= 8 and 0 <= bk <= 1 and 0 <= ka <= 5 and 0 <= shape <= 1 and "
           "((1 <= tk <= 3 and shape == 0 and bk == 0) or (not ha and not hb and not he and ka <= 2))",
    'ext': "1 <= tk <= 6 and 0 <= bk <= 1 and 0 <= ka <= 5 and 0 <= shape <= 3 and "
           "((tk <= 3 and shape == 0) or (not ha and not hb and not he and ka <= 2 and bk == 0))",
    'adj': "1 <= tk <= 8 and 0 <= bk <= 1 and 0 <= ka <= 5 and 0 <= shape <= 5 and "
           "((tk <= 3 and shape == 0) or (not ha and not hb and not he and ka <= 2 and bk == 0))",
}
for _sn in SETS:
    for _ln in LAYOUTS:
        if _sn == 'a' and _ln != 'adj':
            continue
        exec(_T.format(sn=_sn, ln=_ln, sig=_SIG, args=_ARGS, pre=_PRE[_ln],
                       tiers=('quick', 'thorough')))


# ------------------------------------------------------------------ the error names the tag (concrete bodies: rendering realises)

def _names_tag(sn, ln, txt):
    s = SETS[sn]
    if ("'" + s['tag'] + "'") in txt:
        return True
    for cls in s['variants']:
        if repr(getattr(cls, s['tag'])) not in txt:
            return False
    return True


@obligation(pre="0 <= sn <= 2 and 0 <= ln <= 2 and 0 <= tk <= 8 and 0 <= shape <= 4 and (tk == 0 or tk >= 4) and (ln != 1 or tk <= 6)",
            witnesses=(-2,), timeout=150)
def body_names_tag(sn: int, ln: int, tk: int, shape: int) -> int:
    """an unknown, absent or ill-kinded tag is a ConvertError whose text names the tag (key name or the expected tag values)"""
    s = 's' if sn == 0 else ('i' if sn == 1 else 'm')
    l = 'int' if ln == 0 else ('ext' if ln == 1 else 'adj')
    if l == 'int' and shape > 0:
        return -99
    if l == 'ext' and (shape > 2 or tk == 0):
        return -99
    if l == 'adj' and tk == 0:
        return -99
    v, body, wf = build(s, l, tk, 0, True, 2, 1, '', False, False, shape)
    try:
        CONV[(s, l)].convert(v)
    except ConvertError as e:
        txt = str(e)
        if not _names_tag(s, l, txt):
            return 11
        return -2
    except Exception as e:
        if crosshair_exc(e):
            raise
        return 10
    return 6


# ------------------------------------------------------------------ duplicate tag values are refused when the type is built

class VX2(PaneBase):
    t: Literal['x'] = 'x'
    c: int = 0


class W1b(PaneBase):
    k: Literal[1] = 1
    z: int = 0


@obligation(pre="0 <= which <= 5", witnesses=(0,), timeout=60)
def body_duplicate_tags(which: int) -> int:
    """duplicate tag values are refused with TypeError when the converter is built, for every layout (enumerated)"""
    if which == 0:
        ty = t.Annotated[t.Union[VX, VY, VX2], Tagged('t')]
    elif which == 1:
        ty = t.Annotated[t.Union[VX, VX2], Tagged('t', external=True)]
    elif which == 2:
        ty = t.Annotated[t.Union[VX2, VY, VX], Tagged('t', external=('t', 'c'))]
    elif which == 3:
        ty = t.Annotated[t.Union[W1, W2, W1b], Tagged('k')]
    elif which == 4:
        ty = t.Annotated[t.Union[W1, W1b], Tagged('k', external=True)]
    else:
        ty = t.Annotated[t.Union[W1b, WS, W1], Tagged('k', external=('k', 'v'))]
    try:
        make_converter(ty)
    except TypeError:
        return 0
    except Exception as e:
        if crosshair_exc(e):
            raise
        return 13
    return 12



# ------------------------------------------------------------------ a tagged union as a member of another type keeps its layout

class WHold(PaneBase):
    f_int: t.Optional[TY[('s', 'int')]] = None
    f_ext: t.Optional[TY[('s', 'ext')]] = None
    f_adj: t.Union[int, TY[('s', 'adj')], None] = None
    l_ext: t.List[t.Optional[TY[('s', 'ext')]]] = field(default_factory=list)


WRAPPED = {}
for _ln in LAYOUTS:
    _T = TY[('s', _ln)]
    WRAPPED[_ln] = (make_converter(t.Optional[_T]), make_converter(t.Union[int, _T, str]), make_converter(t.Dict[str, t.Optional[_T]]),
                    make_converter(t.Tuple[t.Optional[_T], int]), make_converter(t.Optional[t.List[_T]]),
                    make_converter(t.Union[int, t.Dict[str, _T]]))
make_converter(WHold)


def unwrap(wk, d):
    if wk <= 1:
        return True, d
    elif wk == 2 or wk == 6:
        if not isinstance(d, dict) or list(d.keys()) != ['k']:
            return False, None
        return True, d['k']
    elif wk == 5:
        if not isinstance(d, list) or len(d) != 1:
            return False, None
        return True, d[0]
    else:
        if not isinstance(d, (tuple, list)) or len(d) != 2:
            return False, None
        return True, d[0]


from pane.converters import Converter as _Conv


class _Unrelated(_Conv):
    """a custom converter for a type that occurs nowhere: it must change nothing"""
    def expected(self, plural=False):
        return 'bytes'

    def try_convert(self, val):
        raise ParseInterrupt()

    def collect_errors(self, val):
        return pane.errors.WrongTypeError('bytes', val)

    def into_data(self, val):
        return val


_UNREL = {bytearray: _Unrelated()}
from pane.convert import ConverterHandlers as _CH
_UNREL_H = _CH.make(_UNREL)


class WHoldC(PaneBase, custom=_UNREL):
    """as WHold, with (unrelated) class-level custom converters in effect"""
    f_ext: t.Optional[TY[('s', 'ext')]] = None
    f_adj: t.Union[int, TY[('s', 'adj')], None] = None


WRAPPED_H = {}
for _ln in LAYOUTS:
    _T = TY[('s', _ln)]
    WRAPPED_H[_ln] = (make_converter(t.Optional[_T], _UNREL_H), make_converter(t.Union[int, _T, str], _UNREL_H))
make_converter(WHoldC)


@obligation(pre="1 <= ln <= 2 and 0 <= hk <= 2 and 1 <= tk <= 3", witnesses=(0,), timeout=200)
def body_wrapped_custom(ln: int, hk: int, tk: int, i: int) -> int:
    """... also while custom converters (for an unrelated type) are in effect, passed to the call or declared on the enclosing class"""
    l = 'ext' if ln == 1 else 'adj'
    cls = variant_of('s', tk)
    x = cls.make_unchecked(a='q') if cls is VY else cls.make_unchecked(a=i)
    try:
        if hk == 2:
            fname = 'f_ext' if ln == 1 else 'f_adj'
            d = WHoldC.make_unchecked(**{fname: x}).into_data()
            inner = d[fname]
            got = getattr(WHoldC.from_data(d), fname)
        else:
            conv = WRAPPED_H[l][0] if hk == 0 else WRAPPED_H[l][1]
            inner = conv.into_data(x)
            got = conv.convert(inner)
    except ConvertError:
        return 9
    except Exception as e:
        if crosshair_exc(e):
            raise
        return 10
    if not shape_ok('s', l, cls, inner):
        return 7
    if type(got) is not cls or not eqv(got, x):
        return 9
    return 0


for _ln in (1, 2):
    for _hk in range(3):
        for _tk in (1, 2, 3):
            try:
                body_wrapped_custom(_ln, _hk, _tk, 1)
            except Exception:
                pass


@obligation(pre="0 <= ln <= 2 and 0 <= wk <= 6 and 1 <= tk <= 3", witnesses=(0,), timeout=200)
def body_wrapped(ln: int, wk: int, tk: int, i: int) -> int:
    """a tagged union inside Optional / Union / Dict / Tuple / a dataclass field (wk 0-4), and inside a container that is itself a union member (wk 5, 6), is written in ITS layout, and what is written reads back"""
    l = 'int' if ln == 0 else ('ext' if ln == 1 else 'adj')
    cls = variant_of('s', tk)
    x = cls.make_unchecked(a='q') if cls is VY else cls.make_unchecked(a=i)
    try:
        if wk == 4:
            fname = 'f_int' if ln == 0 else ('f_ext' if ln == 1 else 'f_adj')
            h = WHold.make_unchecked(**{fname: x}) if ln != 1 else WHold.make_unchecked(f_ext=x, l_ext=[x, None])
            d = h.into_data()
            inner = d[fname]
            back = WHold.from_data(d)
            got = getattr(back, fname)
            if ln == 1:
                if not shape_ok('s', l, cls, d['l_ext'][0]) or d['l_ext'][1] is not None or not eqv(back.l_ext, [x, None]):
                    return 7
        else:
            conv = WRAPPED[l][0] if wk == 0 else (WRAPPED[l][1] if wk == 1 else (WRAPPED[l][2] if wk == 2 else (WRAPPED[l][3] if wk == 3 else (WRAPPED[l][4] if wk == 5 else WRAPPED[l][5]))))
            v = x if wk <= 1 else ({'k': x} if (wk == 2 or wk == 6) else ((x, 1) if wk == 3 else [x]))
            d = conv.into_data(v)
            ok, inner = unwrap(wk, d)
            if not ok:
                return 7
            back = conv.convert(d)
            ok, got = unwrap(wk, back)
            if not ok:
                return 9
    except ConvertError:
        return 9
    except Exception as e:
        if crosshair_exc(e):
            raise
        return 10
    if not shape_ok('s', l, cls, inner):
        return 7
    if type(got) is not cls or not eqv(got, x):
        return 9
    return 0


for _ln in range(3):
    for _wk in range(7):
        for _tk in (1, 2, 3):
            try:
                body_wrapped(_ln, _wk, _tk, 1)
            except Exception:
                pass
