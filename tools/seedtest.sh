#!/bin/bash
# tools/seedtest.sh <seed dir> <check id> [<check id> ...]
# Applies a seeded change to a SCRATCH worktree of /repo (never to /repo itself), confirms tests still pass and the demo
# fails there, runs the given quick checks against the scratch copy (VERIF_REPO), removes the worktree.
S="$1"; shift
N=$(basename "$S")
W=/tmp/seedrepo_$N
git -C /repo worktree remove --force $W >/dev/null 2>&1
git -C /repo worktree add -q --detach $W HEAD || exit 9
trap 'git -C /repo worktree remove --force '$W' >/dev/null 2>&1' EXIT
cd $W
if ! git apply --check "$S/patch.diff" 2>/dev/null; then echo "PATCH DOES NOT APPLY: $S"; exit 8; fi
if [ -f "$S/demo.py" ]; then /venv/bin/python "$S/demo.py" >/dev/null 2>&1; echo "demo on clean tree: exit $?"; fi
git apply "$S/patch.diff"
T=$(/venv/bin/python -m pytest -q -p no:cacheprovider 2>&1 | tail -1); echo "tests with seed: $T"
if [ -f "$S/demo.py" ]; then /venv/bin/python "$S/demo.py" >/dev/null 2>&1; echo "demo with seed: exit $?"; fi
for c in "$@"; do
  out=$(cd /verif && VERIF_REPO=$W ./check $c --tier quick --no-selftest --no-evidence --replay-dir /verif/build/seedreplay/$N 2>&1)
  rc=$?
  echo "check $c with seed: exit $rc"
  echo "$out" | grep -E "^(VIOLATION|counterexample|INCONCLUSIVE|SPURIOUS|HARNESS|SUMMARY)" | head -8
done
