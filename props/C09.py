"""C09 -- conversion never mutates its input."""
import os

HERE = os.path.dirname(os.path.abspath(__file__))


def harness_files(tier, seed):
    files = [os.path.join(HERE, 'hC09.py')]
    if tier == 'thorough':
        # the 24 depth-3 type expressions drawn from the grammar with VERIF_SEED (props/gen_types.py), under this property's oracle
        os.environ['VERIF_SEED'] = str(seed)
        files.append(os.path.join(HERE, 'hC09g.py'))
    return files


META = dict(
    bounds="generic depth-1 values and type-directed near-valid values of props/shared.py (containers are CrossHair's symbolic "
           "list/dict proxies or real containers of symbolic leaves); nested internally tagged unions (2 levels, optionally in a "
           "list); mappings of kind dict/defaultdict(int)/defaultdict(list)/OrderedDict with missing and extra keys",
    configs="all mapping- and sequence-consuming converter instances; entry points try_convert, collect_errors, from_data, "
            "convert, into_data, Cls(...) + thorough tier: 24 type expressions of nesting depth 3 drawn from the grammar with VERIF_SEED (props/gen_types.py), type-directed values with 3 symbolic leaf slots, under this property's oracle",
    stubs=[],
    outside=["mutation through user-supplied hooks/constructors (they are the user's code)"],
    assumptions=["oracle: deep type-tagged snapshot of the argument before vs after (NaN-aware)"],
)
