"""C16 harness: dataclass value semantics -- equality, order, hash, frozen, copy, replace, repr.

Oracles: tuple comparison of the compare-fields; the standard library's dataclasses.dataclass built with the same options
for the hash rule table (DESIGN.md 3.4 (b)).
Verdict codes: 1 == is not "same class and compare-fields pairwise equal"; 2 ordering is not the lexicographic order of the
compare-fields / inconsistent with ==; 3 harness; 4 hash presence differs from the stdlib rule table; 5 equal instances hash
differently; 6 frozen/non-frozen attribute assignment or deletion wrong; 7 copy/deepcopy/replace not equal or set-field
record lost; 8 replace did not re-validate; 9 repr wrong; 10 class creation outcome differs from the stdlib (TypeError).
Witness classes: 0, -1 (see each body).
"""
import copy
import dataclasses
import typing as t

import pane
from pane import PaneBase, field
from pane.errors import ConvertError

from hlib import obligation, crosshair_exc, eqv

# ------------------------------------------------------------------ the option cube, as class statements executed at import

CUBE = {}       # (eq, order, frozen, unsafe_hash, explicit_hash) -> pane class or ('error', exception class name)
STD = {}        # (eq, frozen, unsafe_hash, explicit_hash) -> stdlib class or ('error', ...)
_SRC = '''
class C_{tag}(PaneBase, eq={eq}, order={order}, frozen={frozen}, unsafe_hash={uh}):
    x: int = 0
    y: int = field(default=0, compare=False)
    z: int = field(default=0, hash=False)
    w: int = field(default=0, repr=False)
{explicit}
'''
_STD = '''
@dataclasses.dataclass(eq={eq}, frozen={frozen}, unsafe_hash={uh})
class S_{tag}:
    x: int = 0
    y: int = dataclasses.field(default=0, compare=False)
    z: int = dataclasses.field(default=0, hash=False)
    w: int = dataclasses.field(default=0, repr=False)
{explicit}
'''
_EXPL = "    def __hash__(self):\n        return 42\n"
for eq in (False, True):
    for order in (False, True):
        for frozen in (False, True):
            for uh in (False, True):
                for ex in (False, True):
                    tag = f"{int(eq)}{int(order)}{int(frozen)}{int(uh)}{int(ex)}"
                    ns = {'PaneBase': PaneBase, 'field': field}
                    try:
                        exec(_SRC.format(tag=tag, eq=eq, order=order, frozen=frozen, uh=uh, explicit=_EXPL if ex else ''), ns)
                        CUBE[(eq, order, frozen, uh, ex)] = ns['C_' + tag]
                    except Exception as e:
                        CUBE[(eq, order, frozen, uh, ex)] = ('error', type(e).__name__)
                    if order:
                        continue
                    ns2 = {'dataclasses': dataclasses}
                    try:
                        exec(_STD.format(tag=tag, eq=eq, frozen=frozen, uh=uh, explicit=_EXPL if ex else ''), ns2)
                        STD[(eq, frozen, uh, ex)] = ns2['S_' + tag]
                    except Exception as e:
                        STD[(eq, frozen, uh, ex)] = ('error', type(e).__name__)


# classes whose body defines __eq__ (and no __hash__): python puts __hash__ = None into the class dict, which is NOT an explicit hash
EQCUBE = {}
_EQ = "    def __eq__(self, other):\n        return isinstance(other, type(self)) and self.x == other.x\n"
for eq in (False, True):
    for frozen in (False, True):
        for uh in (False, True):
            tag = f"e{int(eq)}{int(frozen)}{int(uh)}"
            ns = {'PaneBase': PaneBase, 'field': field}
            try:
                exec(_SRC.format(tag=tag, eq=eq, order=False, frozen=frozen, uh=uh, explicit=_EQ), ns)
                a = ns['C_' + tag]
            except Exception as e:
                a = ('error', type(e).__name__)
            ns2 = {'dataclasses': dataclasses}
            try:
                exec(_STD.format(tag=tag, eq=eq, frozen=frozen, uh=uh, explicit=_EQ), ns2)
                b = ns2['S_' + tag]
            except Exception as e:
                b = ('error', type(e).__name__)
            EQCUBE[(eq, frozen, uh)] = (a, b)


def hash_category(cls):
    """'error' | 'none' (unhashable) | 'explicit' | 'generated' | 'inherited'"""
    if isinstance(cls, tuple):
        return 'error'
    h = cls.__dict__.get('__hash__', 'absent')
    if h == 'absent':
        return 'inherited'
    if h is None:
        return 'none'
    if getattr(h, '__code__', None) is not None and h.__code__.co_consts and 42 in h.__code__.co_consts:
        return 'explicit'
    return 'generated'


def bit(n, k):
    return (n >> k) & 1 == 1


def cube_class(sel):
    """option vector by selector 0..31: bits eq, order, frozen, unsafe_hash, explicit (if-chain over concrete keys)"""
    n = 0
    for key in CUBE:
        if n == sel:
            return key, CUBE[key]
        n += 1
    return None, None


# ------------------------------------------------------------------ bodies

@obligation(pre="0 <= sel <= 31", witnesses=(0, -1), timeout=120)
def body_hash_table(sel: int) -> int:
    """hash presence / None / TypeError at class creation follows the stdlib dataclass rule table for (eq, frozen, unsafe_hash, explicit __hash__)"""
    key, cls = cube_class(sel)
    (eq, order, frozen, uh, ex) = key
    std = STD[(eq, frozen, uh, ex)]
    a, b = hash_category(cls), hash_category(std)
    if (a == 'error') != (b == 'error'):
        return 10
    if a != b:
        return 4
    return -1 if a == 'error' else 0


@obligation(pre="0 <= sel <= 7", witnesses=(0,), timeout=120)
def body_hash_table_body_eq(sel: int, x1: int) -> int:
    """hash rule table when the class body defines __eq__ but no __hash__ (the implicit __hash__ = None is not an explicit hash): same category as the stdlib"""
    n = 0
    for key in EQCUBE:
        if n == sel:
            (a, b) = EQCUBE[key]
            ca, cb = hash_category(a), hash_category(b)
            if (ca == 'error') != (cb == 'error'):
                return 10
            if ca != cb:
                return 4
            if ca == 'generated' and -2 <= x1 <= 2:
                if hash(a(x1)) != hash(a(x1)):
                    return 5
        n += 1
    return 0


def cmp_tuple(o):
    return (o.x, o.z, o.w)          # the compare-fields (y has compare=False)


def _eq_hash(sel: int, x1: int, y1: int, z1: int, w1: int, x2: int, y2: int, z2: int, w2: int) -> int:
    """== is class equality + pairwise equality of the compare-fields; equal instances hash equal (field values -2..2 for hashing)"""
    key, cls = cube_class(sel)
    if isinstance(cls, tuple):
        return -99
    (eq, order, frozen, uh, ex) = key
    a = cls(x1, y1, z1, w1)
    b = cls(x2, y2, z2, w2)
    same = cmp_tuple(a) == cmp_tuple(b)
    if eq:
        if (a == b) != same or (b == a) != same or (a != b) == same:
            return 1
        if not (a == a):
            return 1
        other = CUBE[(True, True, True, False, False)]
        if cls is not other and (a == other(x1, y1, z1, w1)):
            return 1                  # a different class with equal fields
    cat = hash_category(cls)
    if cat == 'generated':
        # hashed fields: x, w (y: compare=False -> not hashed; z: hash=False); equal instances must hash equal
        if same:
            if -2 <= w1 <= 2 and -2 <= z1 <= 2 and -2 <= z2 <= 2:
                if hash(a) != hash(b):
                    return 5
    elif cat == 'none':
        try:
            hash(a)
            return 4
        except TypeError:
            pass
    return 0 if same else -1



_EQH = '''
@obligation(pre="{lo} <= sel <= {hi} and -2 <= x1 <= 2 and -2 <= x2 <= 2", witnesses=(0, -1), timeout=240)
def body_eq_hash_{lo}(sel: int, x1: int, y1: int, z1: int, w1: int, x2: int, y2: int, z2: int, w2: int) -> int:
    """== is class equality + pairwise equality of the compare-fields; equal instances hash equal (option vectors {lo}..{hi})"""
    return _eq_hash(sel, x1, y1, z1, w1, x2, y2, z2, w2)
'''
for _lo in range(0, 32, 4):
    exec(_EQH.format(lo=_lo, hi=_lo + 3))


@obligation(pre="0 <= sel <= 31", witnesses=(0, -1), timeout=240)
def body_order(sel: int, x1: int, y1: int, z1: int, w1: int, x2: int, y2: int, z2: int, w2: int) -> int:
    """<, <=, >, >= are the lexicographic order of the compare-fields, consistent with ==; exactly one of <, ==, > holds"""
    key, cls = cube_class(sel)
    if isinstance(cls, tuple):
        return -99
    (eq, order, frozen, uh, ex) = key
    a = cls(x1, y1, z1, w1)
    b = cls(x2, y2, z2, w2)
    if not order:
        try:
            a < b
            return 2
        except TypeError:
            return -1
    ta, tb = cmp_tuple(a), cmp_tuple(b)
    if (a < b) != (ta < tb) or (a <= b) != (ta <= tb) or (a > b) != (ta > tb) or (a >= b) != (ta >= tb):
        return 2
    if eq:
        n = (1 if a < b else 0) + (1 if a == b else 0) + (1 if a > b else 0)
        if n != 1:
            return 2
    other = CUBE[(True, True, True, False, False)]
    if cls is not other:
        try:
            a < other(x2, y2, z2, w2)
            return 2
        except TypeError:
            pass
    return 0


@obligation(pre="0 <= sel <= 31 and 0 <= which <= 3", witnesses=(0, -1), timeout=240)
def body_frozen(sel: int, which: int, x1: int, v: int) -> int:
    """frozen instances reject attribute assignment and deletion; non-frozen assignment updates the value and the set-field record"""
    key, cls = cube_class(sel)
    if isinstance(cls, tuple):
        return -99
    (eq, order, frozen, uh, ex) = key
    a = cls(x1)
    name = 'x' if which == 0 else ('y' if which == 1 else ('z' if which == 2 else 'w'))
    before = set(a.dict(set_only=True).keys())
    if before != {'x'}:
        return 6
    try:
        setattr(a, name, v)
        assigned = True
    except dataclasses.FrozenInstanceError:
        assigned = False
    except Exception as e:
        if crosshair_exc(e):
            raise
        return 6
    if assigned == frozen:
        return 6
    if assigned:
        if getattr(a, name) != v:
            return 6
        if set(a.dict(set_only=True).keys()) != before | {name}:
            return 6
    else:
        if a.x != x1 or set(a.dict(set_only=True).keys()) != before:
            return 6
    try:
        delattr(a, name)
        return 6
    except AttributeError:
        pass
    return 0 if frozen else -1


class R1(PaneBase):
    x: int = 0
    xs: t.List[int] = field(default_factory=list)
    s: str = 's'


class R2(PaneBase, frozen=False):
    x: int = 0
    xs: t.List[int] = field(default_factory=list)
    s: str = 's'


@obligation(pre="0 <= op <= 2 and 0 <= bad <= 2", witnesses=(0, -1), timeout=240)
def body_copy_replace(px: bool, pxs: bool, ps: bool, mut: bool, op: int, bad: int, x: int, n: int) -> int:
    """copy / deepcopy / __replace__ give equal instances with the same set-field record; replace re-validates what it changes"""
    cls = R2 if mut else R1
    kw = {}
    if px:
        kw['x'] = x
    if pxs:
        kw['xs'] = [x, n]
    if ps:
        kw['s'] = 'q'
    a = cls(**kw)
    rec = set(a.dict(set_only=True).keys())
    if rec != set(kw.keys()):
        return 7
    if op == 0:
        b = copy.copy(a)
        if b.xs is not a.xs:
            return 7
    elif op == 1:
        b = copy.deepcopy(a)
        if b.xs is a.xs:
            return 7
    else:
        if bad == 1:
            try:
                a.__replace__(x='not an int')
                return 8
            except ConvertError:
                return -1
        elif bad == 2:
            try:
                a.__replace__(xs=[1, 'x'])
                return 8
            except ConvertError:
                return -1
        b = a.__replace__(x=n)
        if b.x != n or not eqv(b.xs, a.xs) or b.s != a.s:
            return 7
        if set(b.dict(set_only=True).keys()) != rec | {'x'}:
            return 7
        b = a.__replace__()
    if not (a == b) or not eqv(a, b) or type(b) is not cls:
        return 7
    if set(b.dict(set_only=True).keys()) != rec:
        return 7
    if mut and op <= 1:
        # the copy has a set-field record of its own: assigning on one instance is not recorded on the other
        first, second = (b, a) if bad == 0 else (a, b)
        first.s = 'new'
        if set(first.dict(set_only=True).keys()) != rec | {'s'} or set(second.dict(set_only=True).keys()) != rec:
            return 9
        if second.s != ('q' if ps else 's'):
            return 9
        c = copy.copy(second) if op == 0 else copy.deepcopy(second)
        if set(c.dict(set_only=True).keys()) != rec:
            return 9
    return 0


@obligation(pre="0 <= sel <= 31", witnesses=(0,), timeout=120)
def body_repr(sel: int, x1: int, y1: int, z1: int, w1: int) -> int:
    """repr lists the repr-fields in declaration order (values concretised by rendering: small ints)"""
    key, cls = cube_class(sel)
    if isinstance(cls, tuple):
        return -99
    x1, y1, z1 = (1 if x1 > 0 else -1), (2 if y1 > 0 else 0), (3 if z1 > 0 else -3)
    a = cls(x1, y1, z1, w1)
    if repr(a) != f"{cls.__name__}(x={x1}, y={y1}, z={z1})":
        return 9
    return 0


T = t.TypeVar('T')


class G(PaneBase, t.Generic[T]):
    v: T
    k: int = 0


class GA(G[int]):
    pass


class GB(G[int]):
    pass


class GC(G[int]):
    extra: int = 0


@obligation(pre="True", witnesses=(0, -1), timeout=120)
def body_generic_eq(v1: int, k1: int, v2: int, k2: int) -> int:
    """equality ignores generic parameters: G[int](..) == G(..) == G[Any](..) when the fields are equal"""
    a = G[int](v1, k1)
    b = G(v2, k2)
    c = G[t.Any](v2, k2)
    same = (v1 == v2 and k1 == k2)
    if (a == b) != same or (b == a) != same or (a == c) != same or (c == b) is not True:
        return 1
    # concrete subclasses of a parameterised generic are classes of their own
    ga, gb, gc = GA(v1, k1), GB(v1, k1), GC(v1, k1)
    try:
        if ga == gb or gb == ga or ga == a or a == ga or ga == gc or gc == ga:
            return 1
        if not (ga == GA(v1, k1)) or (ga == GA(v2, k2)) != same:
            return 1
    except Exception as e:
        if crosshair_exc(e):
            raise
        return 1
    return 0 if same else -1


for _sel in range(32):
    try:
        body_hash_table(_sel)
        _eq_hash(_sel, 1, 2, 0, 1, 1, 0, 0, 1)
        body_order(_sel, 1, 2, 0, 1, 1, 0, 2, 1)
        body_frozen(_sel, 1, 1, 2)
        body_repr(_sel, 1, 1, 1, 1)
    except Exception:
        pass
for _a in ((True, True, False, False, 0, 0, 1, 2), (False, False, False, True, 1, 0, 1, 2), (True, False, True, True, 2, 0, 1, 2),
           (True, False, True, True, 2, 1, 1, 2)):
    try:
        body_copy_replace(*_a)
    except Exception:
        pass
try:
    body_generic_eq(1, 2, 1, 2)
except Exception:
    pass
