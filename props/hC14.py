"""C14 harness: dataclass construction is conversion; defaults are fresh; the set-field record is exact.

Oracles: the construction paths against each other and against from_data of the field's own type (DESIGN.md 3.4 (a)).
Verdict codes: 1 a supplied argument was not converted as from_data(arg, field type) would (value or verdict differs);
2 constructor and data path give different instances / verdicts; 4 an unsupplied field does not hold its default (wrong
value, the factory object itself, ...); 5 a default-factory product is shared between instances or is not fresh;
6 dict(set_only=True) is not exactly the supplied fields; 7 make_unchecked did not store the argument verbatim;
8 __post_init__ did not run exactly once per instance; 9 a failing __post_init__ did not surface as ConvertError on a data
path; 10 unexpected exception class.
Witness classes: 0 constructed, -1 rejected.
"""
import typing as t
from typing import List, Optional, Dict

import pane
from pane import PaneBase, field, KW_ONLY
from pane.convert import make_converter
from pane.errors import ConvertError

from hlib import obligation, crosshair_exc, eqv, lf, lf3, cint, OutOfBound
from props.shared import P1

HOOK = [0]


class K1(PaneBase, in_format=('struct', 'tuple')):
    a: int
    b: float = 1.5
    c: List[int] = field(default_factory=list)
    d: Optional[int] = None

    def __post_init__(self):
        HOOK[0] += 1
        if self.a == 13:
            raise ValueError("unlucky")


class K2(PaneBase, in_format=('struct', 'tuple')):
    a: int = 0
    b: Dict[str, int] = field(default_factory=dict, aliases=('bee',))
    _: KW_ONLY
    k: str = 'k'
    m: List[str] = field(default_factory=lambda: ['m'])

    def __post_init__(self):
        HOOK[0] += 1


class K3(PaneBase, in_format=('struct', 'tuple')):
    """every field has a default: the empty mapping / empty sequence / no-argument constructor are all valid"""
    p: P1 = field(default_factory=lambda: P1(a=1))
    xs: List[int] = field(default_factory=lambda: [1, 2])
    n: int = 7

    def __post_init__(self):
        HOOK[0] += 1


class K5(PaneBase, in_format=('struct', 'tuple')):
    """an init=False field declared before other positional fields"""
    x: int
    scale: str = field(init=False, default='unit')
    y: float = 0.5
    z: int = 0

    def __post_init__(self):
        HOOK[0] += 1


class KB(PaneBase, in_format=('struct', 'tuple')):
    x: int = 1
    y: str = 'y'

    def __post_init__(self):
        HOOK[0] += 1


class Mix:
    """a plain mixin that happens to carry an attribute named like a field"""
    y = 'mixed'


class K6(Mix, KB):
    """inherited defaulted fields whose names are shadowed by NON-field class attributes (no annotation: not an override)"""
    x = 10
    z: int = 0


FIELDS = {
    K6: (('x', int), ('y', str), ('z', int)),
    K5: (('x', int), ('y', float), ('z', int)),
    K1: (('a', int), ('b', float), ('c', List[int]), ('d', Optional[int])),
    K2: (('a', int), ('b', Dict[str, int]), ('k', str), ('m', List[str])),
    K3: (('p', P1), ('xs', List[int]), ('n', int)),
}
NPOS = {K1: 4, K2: 2, K3: 3, K5: 3, K6: 3}
DEFAULTS = {
    K6: {'x': lambda: 1, 'y': lambda: 'y', 'z': lambda: 0},
    K5: {'y': lambda: 0.5, 'z': lambda: 0},
    K1: {'b': lambda: 1.5, 'c': lambda: [], 'd': lambda: None},
    K2: {'a': lambda: 0, 'b': lambda: {}, 'k': lambda: 'k', 'm': lambda: ['m']},
    K3: {'p': lambda: P1(a=1), 'xs': lambda: [1, 2], 'n': lambda: 7},
}
MUTABLE = {K1: ('c',), K2: ('b', 'm'), K3: ('xs',), K5: (), K6: ()}
for _cls in FIELDS:
    make_converter(_cls)
    for (_n, _ty) in FIELDS[_cls]:
        make_converter(_ty)


def val_for(ty_name, sel, i, s):
    """argument values per field type: valid, convertible-with-change, and wrong-kind (selector 0..3)"""
    if ty_name == 'int':
        return lf(sel, i, s)                     # all 6 leaf kinds (sel 0..5)
    elif ty_name == 'float':
        if sel == 0:
            return 2.5
        elif sel == 1:
            return 3                              # int -> float widening: stored as 3.0
        elif sel == 2:
            return 'x'
        else:
            return True
    elif ty_name == 'list_int':
        if sel == 0:
            return []
        elif sel == 1:
            return [cint(i)]
        elif sel == 2:
            return (1, 2)                         # tuple -> list
        else:
            return [1, 'x']
    elif ty_name == 'opt_int':
        if sel == 0:
            return None
        elif sel == 1:
            return i
        else:
            return 'x'
    elif ty_name == 'dict_si':
        if sel == 0:
            return {}
        elif sel == 1:
            return {'q': i}
        else:
            return {'q': 'x'}
    elif ty_name == 'str':
        if sel == 0:
            return 'zz'
        else:
            return 5
    elif ty_name == 'list_str':
        if sel == 0:
            return ['u']
        else:
            return [1]
    elif ty_name == 'p1':
        if sel == 0:
            return {'a': i}
        elif sel == 1:
            return {'a': 2, 'b': 3}               # nested int -> float widening
        elif sel == 2:
            return {'a': 'x'}
        elif sel == 3:
            return P1.make_unchecked(a=i, b=3)    # an INSTANCE of the field's class that was never validated: normalised like its data
        else:
            return P1.make_unchecked(a='x')       # ... with invalid content: rejected like its data
    raise KeyError(ty_name)


def expected_of(ty, v):
    try:
        return True, pane.convert(v, ty)
    except ConvertError:
        return False, None
    except Exception as e:
        if crosshair_exc(e) or not isinstance(v, P1):
            raise
        return False, None       # an instance with invalid content cannot even be serialised: not convertible


def attempt(f):
    """('ok', instance) | ('reject',) for ConvertError | ('bind',) for a signature TypeError | ('other', exc)"""
    try:
        return ('ok', f())
    except ConvertError:
        return ('reject', None)
    except TypeError as e:
        if crosshair_exc(e):
            raise
        return ('bind', None)
    except Exception as e:
        if crosshair_exc(e):
            raise
        return ('other', e)


def raw_of(v):
    """the interchange data an (unvalidated) P1 instance stands for"""
    if isinstance(v, P1):
        return {'a': v.a, 'b': v.b}
    return v


def _as_data(kw, data_keys):
    if not data_keys:
        return {k: raw_of(v) for (k, v) in kw.items()}
    return {data_keys.get(k, k): raw_of(v) for (k, v) in kw.items()}


def check_instance(cls, x, supplied, exp):
    """x was built from the supplied fields `supplied` (name -> raw argument); exp: name -> expected converted value"""
    for (name, ty) in FIELDS[cls]:
        got = getattr(x, name)
        if name in supplied:
            if not eqv(got, exp[name]):
                return 1
        else:
            want = DEFAULTS[cls][name]()
            if not eqv(got, want):
                return 4
    rec = x.dict(set_only=True)
    if set(rec.keys()) != set(supplied.keys()):
        return 6
    return 0


def run_paths(cls, kw, positional, broken_hook=False, data_keys=None):
    """kw: ordered dict name -> raw argument (a prefix of the positional fields when `positional`);
    data_keys: field name -> the key (e.g. an alias) under which the mapping data carries it"""
    exp = {}
    all_ok = True
    for (name, ty) in FIELDS[cls]:
        if name in kw:
            ok, e = expected_of(ty, kw[name])
            if not ok:
                all_ok = False
            exp[name] = e
    required_missing = False
    for (name, ty) in FIELDS[cls]:
        if name not in kw and name not in DEFAULTS[cls]:
            required_missing = True
    h0 = HOOK[0]
    if positional:
        args = [kw[name] for (name, ty) in FIELDS[cls] if name in kw]
        r_ctor = attempt(lambda: cls(*args))
        h1 = HOOK[0]
        r_data = attempt(lambda: cls.from_data([raw_of(a) for a in args]))
    else:
        r_ctor = attempt(lambda: cls(**kw))
        h1 = HOOK[0]
        r_data = attempt(lambda: cls.from_data(_as_data(kw, data_keys)))
    h2 = HOOK[0]
    if r_data[0] == 'other':
        return 9 if broken_hook else 10
    if r_ctor[0] == 'other' and not all_ok and any(isinstance(v, P1) for v in kw.values()):
        r_ctor = ('reject', None)                     # (serialising an instance with invalid content may fail with its own error)
    if r_ctor[0] == 'other' and not broken_hook:      # (a failing hook may escape from the constructor as it is)
        return 10
    should_build = all_ok and not required_missing and not broken_hook
    if should_build:
        if r_ctor[0] != 'ok' or r_data[0] != 'ok':
            return 2 if (r_ctor[0] == 'ok') != (r_data[0] == 'ok') else 1
    else:
        if r_ctor[0] == 'ok' or r_data[0] == 'ok':
            if broken_hook:
                return 9
            return 1
        if r_data[0] != 'reject':
            return 9 if broken_hook else 10
        return -1
    (x, y) = (r_ctor[1], r_data[1])
    if h1 - h0 != 1 or h2 - h1 != 1:
        return 8
    for inst in (x, y):
        c = check_instance(cls, inst, kw, exp)
        if c:
            return c
    if not eqv(x, y) or not (x == y):
        return 2
    # defaults are fresh: not shared between instances, and a mutation of one instance's default does not leak
    for name in MUTABLE[cls]:
        if name not in kw:
            if getattr(x, name) is getattr(y, name):
                return 5
            m = getattr(y, name)
            if isinstance(m, list):
                m.append(99)
            else:
                m['leak'] = 99
            z = attempt(lambda: cls.from_data([raw_of(a) for a in args]) if positional else cls.from_data(_as_data(kw, data_keys)))
            w = attempt(lambda: cls(*args) if positional else cls(**kw))
            for r in (z, w):
                if r[0] != 'ok':
                    return 5
                if not eqv(getattr(r[1], name), DEFAULTS[cls][name]()):
                    return 5
    # make_unchecked stores its arguments verbatim
    if positional:
        u = attempt(lambda: cls.make_unchecked(*args))
    else:
        u = attempt(lambda: cls.make_unchecked(**kw))
    if u[0] != 'ok':
        return 7
    for name in kw:
        if getattr(u[1], name) is not kw[name]:
            return 7
    if set(u[1].dict(set_only=True).keys()) != set(kw.keys()):
        return 6
    return 0


# Fault budget (DESIGN.md 3.1): at most one supplied field carries a value other than its first (valid) variant; which field
# (ff) and which variant (sf) are the solver's choice, as is the supplied subset.

def _sel(ff, idx, sf):
    return sf if ff == idx else 0


# ---- K1
@obligation(pre="0 <= ff <= 3 and 0 <= sf <= 5 and (ff == 0 or sf <= 3) and (ff != 3 or sf <= 2)", witnesses=(0, -1), timeout=300)
def body_k1_keywords(pa: bool, pb: bool, pc: bool, pd: bool, ff: int, sf: int, i: int, s: str) -> int:
    """K1 (required int, float default, list factory, Optional default; validation hook): Cls(**kw) vs from_data(mapping)"""
    if len(s) > 1:
        raise OutOfBound()
    kw = {}
    sa = sf if ff == 0 else 2                     # field a: variant 2 is the valid one (an int)
    if pa:
        kw['a'] = val_for('int', sa, i, s)
    if pb:
        kw['b'] = val_for('float', _sel(ff, 1, sf), i, s)
    if pc:
        kw['c'] = val_for('list_int', _sel(ff, 2, sf), i, s)
    if pd:
        kw['d'] = val_for('opt_int', _sel(ff, 3, sf), i, s)
    hook_fails = pa and sa == 2 and i == 13
    return run_paths(K1, kw, False, broken_hook=hook_fails)


@obligation(pre="0 <= n <= 4 and 0 <= ff <= 3 and 0 <= sf <= 5 and (ff == 0 or sf <= 3) and (ff != 3 or sf <= 2)", witnesses=(0, -1), timeout=300)
def body_k1_positional(n: int, ff: int, sf: int, i: int, s: str) -> int:
    """K1: Cls(*args) vs from_data(sequence), symbolic number of supplied positional fields"""
    if len(s) > 1:
        raise OutOfBound()
    kw = {}
    sa = sf if ff == 0 else 2
    if n >= 1:
        kw['a'] = val_for('int', sa, i, s)
    if n >= 2:
        kw['b'] = val_for('float', _sel(ff, 1, sf), i, s)
    if n >= 3:
        kw['c'] = val_for('list_int', _sel(ff, 2, sf), i, s)
    if n >= 4:
        kw['d'] = val_for('opt_int', _sel(ff, 3, sf), i, s)
    hook_fails = n >= 1 and sa == 2 and i == 13
    return run_paths(K1, kw, True, broken_hook=hook_fails)


# ---- K2 (keyword-only fields, alias, dict/list factories)
@obligation(pre="0 <= ff <= 3 and 0 <= sf <= 5 and (ff == 0 or sf <= 2) and (ff <= 1 or sf <= 1)", witnesses=(0, -1), timeout=300)
def body_k2_keywords(pa: bool, pb: bool, pk: bool, pm: bool, ff: int, sf: int, i: int, s: str) -> int:
    """K2 (all defaults, dict and list factories, keyword-only fields): Cls(**kw) vs from_data(mapping)"""
    if len(s) > 1:
        raise OutOfBound()
    kw = {}
    if pa:
        kw['a'] = val_for('int', sf if ff == 0 else 2, i, s)
    if pb:
        kw['b'] = val_for('dict_si', _sel(ff, 1, sf), i, s)
    if pk:
        kw['k'] = val_for('str', _sel(ff, 2, sf), i, s)
    if pm:
        kw['m'] = val_for('list_str', _sel(ff, 3, sf), i, s)
    # the mapping data may spell field b by its alias: values, equality and the set-field record must not care
    return run_paths(K2, kw, False, data_keys={'b': 'bee'} if i > 0 else None)


@obligation(pre="0 <= n <= 2 and 0 <= ff <= 1 and 0 <= sf <= 5 and (ff == 0 or sf <= 2)", witnesses=(0, -1), timeout=300)
def body_k2_positional(n: int, ff: int, sf: int, i: int, s: str) -> int:
    """K2: positional prefix (keyword-only fields cannot be positional)"""
    if len(s) > 1:
        raise OutOfBound()
    kw = {}
    if n >= 1:
        kw['a'] = val_for('int', sf if ff == 0 else 2, i, s)
    if n >= 2:
        kw['b'] = val_for('dict_si', _sel(ff, 1, sf), i, s)
    return run_paths(K2, kw, True)


# ---- K5 (init=False field in the middle)
@obligation(pre="0 <= n <= 3 and 0 <= ff <= 2 and 0 <= sf <= 5 and (ff != 1 or sf <= 3)", witnesses=(0, -1), timeout=300)
def body_k5_positional(n: int, ff: int, sf: int, i: int, s: str) -> int:
    """K5: positional arguments skip the init=False field on both paths; converted like from_data of each field's own type"""
    if len(s) > 1:
        raise OutOfBound()
    kw = {}
    if n >= 1:
        kw['x'] = val_for('int', sf if ff == 0 else 2, i, s)
    if n >= 2:
        kw['y'] = val_for('float', _sel(ff, 1, sf), i, s)
    if n >= 3:
        kw['z'] = val_for('int', sf if ff == 2 else 2, i, s)
    r = run_paths(K5, kw, True)
    return r


# ---- K6 (inherited defaults under shadowing class attributes)
@obligation(pre="0 <= ff <= 2 and 0 <= sf <= 5 and (ff != 1 or sf <= 1)", witnesses=(0, -1), timeout=300)
def body_k6_keywords(px: bool, py: bool, pz: bool, ff: int, sf: int, i: int, s: str) -> int:
    """K6 (inherited defaulted fields shadowed by a non-annotated class attribute and by a mixin attribute): unsupplied fields take the FIELD default on every path"""
    if len(s) > 1:
        raise OutOfBound()
    kw = {}
    if px:
        kw['x'] = val_for('int', sf if ff == 0 else 2, i, s)
    if py:
        kw['y'] = val_for('str', _sel(ff, 1, sf), i, s)
    if pz:
        kw['z'] = val_for('int', sf if ff == 2 else 2, i, s)
    return run_paths(K6, kw, False)


@obligation(pre="0 <= n <= 3 and 0 <= ff <= 2 and 0 <= sf <= 5 and (ff != 1 or sf <= 1)", witnesses=(0, -1), timeout=300)
def body_k6_positional(n: int, ff: int, sf: int, i: int, s: str) -> int:
    """K6: positional arguments / sequence data"""
    if len(s) > 1:
        raise OutOfBound()
    kw = {}
    if n >= 1:
        kw['x'] = val_for('int', sf if ff == 0 else 2, i, s)
    if n >= 2:
        kw['y'] = val_for('str', _sel(ff, 1, sf), i, s)
    if n >= 3:
        kw['z'] = val_for('int', sf if ff == 2 else 2, i, s)
    return run_paths(K6, kw, True)


# ---- K3 (nested dataclass factory; the empty mapping is valid)
@obligation(pre="0 <= ff <= 2 and 0 <= sf <= 5 and (ff != 0 or sf <= 4) and (ff != 1 or sf <= 3)", witnesses=(0, -1), timeout=300)
def body_k3_keywords(pp: bool, px: bool, pn: bool, ff: int, sf: int, i: int, s: str) -> int:
    """K3 (every field defaulted, nested dataclass factory): includes Cls() vs from_data({})"""
    if len(s) > 1:
        raise OutOfBound()
    kw = {}
    if pp:
        kw['p'] = val_for('p1', _sel(ff, 0, sf), cint(i), s)
    if px:
        kw['xs'] = val_for('list_int', _sel(ff, 1, sf), i, s)
    if pn:
        kw['n'] = val_for('int', sf if ff == 2 else 2, i, s)
    return run_paths(K3, kw, False)


@obligation(pre="0 <= n <= 3 and 0 <= ff <= 2 and 0 <= sf <= 5 and (ff != 0 or sf <= 4) and (ff != 1 or sf <= 3)", witnesses=(0, -1), timeout=300)
def body_k3_positional(n: int, ff: int, sf: int, i: int, s: str) -> int:
    """K3: includes Cls() vs from_data([])"""
    if len(s) > 1:
        raise OutOfBound()
    kw = {}
    if n >= 1:
        kw['p'] = val_for('p1', _sel(ff, 0, sf), cint(i), s)
    if n >= 2:
        kw['xs'] = val_for('list_int', _sel(ff, 1, sf), i, s)
    if n >= 3:
        kw['n'] = val_for('int', sf if ff == 2 else 2, i, s)
    return run_paths(K3, kw, True)


for _cls, _kw in ((K6, {}), (K6, {'z': 1}), (K6, {'x': 2, 'y': 'q'}), (K3, {'p': P1.make_unchecked(a=1, b=3)}), (K3, {'p': P1.make_unchecked(a='x')}), (K5, {'x': 1, 'y': 2}), (K5, {'x': 1}), (K1, {'a': 1}), (K1, {'a': 1, 'c': [1]}), (K1, {}), (K1, {'a': 'x'}), (K2, {}), (K2, {'b': {'q': 1}}), (K3, {}),
                  (K3, {'p': {'a': 1}})):
    for _pos in (False, True):
        try:
            run_paths(_cls, dict(_kw), _pos)
        except Exception:
            pass
try:
    run_paths(K1, {'a': 13}, False, True)
    run_paths(K1, {'a': 13}, True, True)
except Exception:
    pass


# ------------------------------------------------------------------ classes with custom converters: constructor vs data path

from pane.converters import Converter
from pane.errors import ParseInterrupt, WrongTypeError


class Mark(Converter):
    def expected(self, plural=False):
        return 'marked int'

    def try_convert(self, val):
        if isinstance(val, int):
            return ('m', val)
        raise ParseInterrupt()

    def collect_errors(self, val):
        return None if isinstance(val, int) else WrongTypeError('marked int', val)

    def into_data(self, val):
        return val


class K4a(PaneBase, custom={int: Mark()}):
    n: int = 0


class K4b(PaneBase):
    n: int = field(default=0, converter=Mark())


class K4c(PaneBase):
    n: int = 0


for _c in (K4a, K4b, K4c):
    make_converter(_c)
    try:
        _c(n=1)
        _c.from_data({'n': 1})
    except Exception:
        pass


@obligation(pre="0 <= which <= 2", witnesses=(0,), timeout=120)
def body_custom_converters(which: int, i: int, pos: bool) -> int:
    """Cls(...) equals Cls.from_data(...) of the same fields also when the class (0) or the field (1) carries a custom converter; 2 = control"""
    cls = K4a if which == 0 else (K4b if which == 1 else K4c)
    x = cls(i) if pos else cls(n=i)
    y = cls.from_data({'n': i})
    if not eqv(x.n, y.n):
        return 2
    return 0


# ------------------------------------------------------------------ a field that cannot be supplied still takes its default

class K7(PaneBase, in_format=('struct', 'tuple')):
    """init=False fields: one with a plain default, one with a default factory, declared between supplied fields"""
    x: int = 0
    tag: str = field(init=False, default='t')
    cache: List[int] = field(init=False, default_factory=lambda: [7])
    y: int = 1

    def __post_init__(self):
        HOOK[0] += 1


make_converter(K7)


@obligation(pre="0 <= path <= 3 and 0 <= n <= 2", witnesses=(0,), timeout=200)
def body_k7_init_false(path: int, n: int, i: int, j: int) -> int:
    """init=False fields take their default / a fresh product of their default factory on every path (constructor by keyword, by position, mapping data, sequence data), and the instance is usable (repr, ==, dict)"""
    kw = {}
    i = cint(i)          # (repr() below realises symbolic ints: concrete classes)
    j = cint(j)
    if n >= 1:
        kw['x'] = i
    if n >= 2:
        kw['y'] = j
    args = [kw[k] for k in ('x', 'y') if k in kw]
    try:
        if path == 0:
            a, b = K7(**kw), K7(**kw)
        elif path == 1:
            a, b = K7(*args), K7.make_unchecked(*args)
        elif path == 2:
            a, b = K7.from_data(dict(kw)), K7.from_data(dict(kw))
        else:
            a, b = K7.from_data(list(args)), K7.from_data(tuple(args))
        for inst in (a, b):
            if inst.tag != 't' or not eqv(inst.cache, [7]):
                return 4
            if inst.x != (i if n >= 1 else 0) or inst.y != (j if n >= 2 else 1):
                return 1
            if set(inst.dict(set_only=True).keys()) != set(kw.keys()):
                return 6
        if a.cache is b.cache:
            return 5
        if not (a == b) or len(repr(a)) == 0:
            return 2
        a.cache.append(1)
        c = K7(**kw)
        if not eqv(c.cache, [7]):
            return 5
    except Exception as e:
        if crosshair_exc(e):
            raise
        return 10
    return 0


for _p in range(4):
    try:
        body_k7_init_false(_p, 2, 1, 2)
    except Exception:
        pass


# ------------------------------------------------------------------ field types that compare equal but convert differently; a hook that assigns

import decimal as _dec


class LA(PaneBase):
    text: t.Union[_dec.Decimal, str] = ''
    xs: list[t.Union[int, float]] = field(default_factory=list)        # (builtin alias: typing would intern the two orders)


class LB(PaneBase):
    text: t.Union[str, _dec.Decimal] = ''
    xs: list[t.Union[float, int]] = field(default_factory=list)


@obligation(pre="0 <= first <= 1 and -1 <= i <= 7", witnesses=(0,), timeout=200)
def body_ctor_type_history(first: int, i: int) -> int:
    """two classes whose field types are equal-comparing unions in opposite orders, constructed one after the other (either order): each constructor converts like its own from_data"""
    import hlib as _h
    i = cint(i)
    order = (LA, LB) if first == 0 else (LB, LA)
    with _h.untraced():          # (a memo keyed on type equality would be a functools cache, which the tracer bypasses)
        for cls in order:
            a = cls(text='1.50', xs=[1])
            b = cls.from_data({'text': '1.50', 'xs': [1]})
            if not eqv(a, b) or not (a == b):
                return 2
    a = LA(text='1.50', xs=[i])
    b = LB(text='1.50', xs=[i])
    if not eqv(a.text, _dec.Decimal('1.50')) or not eqv(b.text, '1.50'):
        return 1
    if type(a.xs[0]) is not int or type(b.xs[0]) is not float:
        return 1
    return 0


class K8(PaneBase, frozen=False, in_format=('struct', 'tuple')):
    """a mutable class whose validation hook NORMALISES by plain assignment"""
    lo: float = 0.0
    hi: float = 1.0

    def __post_init__(self):
        HOOK[0] += 1
        if self.lo > self.hi:
            self.lo, self.hi = self.hi, self.lo


make_converter(K8)


@obligation(pre="0 <= path <= 2 and -2 <= i <= 2 and -2 <= j <= 2", witnesses=(0,), timeout=200)
def body_k8_hook_assigns(path: int, i: int, j: int) -> int:
    """K8 (frozen=False, __post_init__ assigns fields): constructor, mapping data and sequence data build equal instances; the hook runs once per instance and never escapes as anything but ConvertError on data paths"""
    lo, hi = cint(i), cint(j)
    h0 = HOOK[0]
    try:
        a = K8(lo=lo, hi=hi)
        if path == 0:
            b = K8(lo, hi)
        elif path == 1:
            b = K8.from_data({'lo': lo, 'hi': hi})
        else:
            b = K8.from_data([lo, hi])
    except ConvertError:
        return 2
    except Exception as e:
        if crosshair_exc(e):
            raise
        return 10
    if HOOK[0] - h0 != 2:
        return 8
    if not eqv(a, b) or not (a == b):
        return 2
    want_lo, want_hi = (float(lo), float(hi)) if lo <= hi else (float(hi), float(lo))
    if not eqv(a.lo, want_lo) or not eqv(a.hi, want_hi):
        return 4
    return 0


for _a in ((0, 1), (1, 1)):
    try:
        body_ctor_type_history(*_a)
    except Exception:
        pass
for _p in range(3):
    for _a in ((1, 2), (2, 1)):
        try:
            body_k8_hook_assigns(_p, *_a)
        except Exception:
            pass


# ------------------------------------------------------------------ a validation hook INHERITED from a base dataclass

_TH = t.TypeVar('_TH')


class HBase(PaneBase, in_format=('struct', 'tuple')):
    lo: int = 0
    hi: int = 10

    def __post_init__(self):
        HOOK[0] += 1
        if self.lo > self.hi:
            raise ValueError("lo > hi")


class HSub(HBase):
    """inherits the hook, adds a field"""
    name: str = 'n'


class HGen(PaneBase, t.Generic[_TH], in_format=('struct', 'tuple')):
    lo: _TH
    hi: _TH

    def __post_init__(self):
        HOOK[0] += 1
        if self.lo > self.hi:
            raise ValueError("lo > hi")


class HGenSub(HGen[int]):
    """a plain subclass of a specialisation: the hook comes from the generic origin"""
    name: str = 'n'


for _c in (HBase, HSub, HGen[int], HGenSub):
    make_converter(_c)


@obligation(pre="0 <= which <= 3 and 0 <= path <= 2 and -1 <= i <= 1 and -1 <= j <= 1", witnesses=(0, -1), timeout=200)
def body_inherited_hook(which: int, path: int, i: int, j: int) -> int:
    """a validation hook inherited from a base dataclass (plain base, generic origin) runs on every path; its failure is a ConvertError on the data paths, exactly when the constructor fails"""
    cls = HBase if which == 0 else (HSub if which == 1 else (HGen[int] if which == 2 else HGenSub))
    lo, hi = cint(i), cint(j)
    h0 = HOOK[0]
    ctor = attempt(lambda: cls(lo=lo, hi=hi))
    h1 = HOOK[0]
    if path == 0:
        data = attempt(lambda: cls.from_data({'lo': lo, 'hi': hi}))
    elif path == 1:
        data = attempt(lambda: cls.from_data([lo, hi]))
    else:
        data = attempt(lambda: pane.convert({'lo': lo, 'hi': hi}, cls))
    h2 = HOOK[0]
    if h1 - h0 != 1 or h2 - h1 < 1:
        return 8
    should_fail = lo > hi
    if should_fail:
        if ctor[0] == 'ok' or data[0] == 'ok':
            return 9
        if data[0] != 'reject':
            return 9          # anything but ConvertError on a data path
        return -1
    if ctor[0] != 'ok' or data[0] != 'ok':
        return 1
    if not eqv(ctor[1], data[1]):
        return 2
    return 0


for _w in range(4):
    for _p in range(3):
        for _a in ((0, 1), (1, 0)):
            try:
                body_inherited_hook(_w, _p, *_a)
            except Exception:
                pass
