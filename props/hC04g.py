"""C04, thorough tier: only ConvertError escapes from_data / convert on the depth-3 types drawn with VERIF_SEED.
Verdict code: the class of the escaping exception as in hC04 (classify)."""
import pane
from pane.errors import ConvertError

from hlib import obligation, crosshair_exc
from props import gen_types as G

GEN = G.gen_types(G.SEED)


def check_depth3(idx, v):
    T = GEN[idx]
    res = 0
    for fn in (pane.from_data, pane.convert):
        try:
            fn(v, T)
        except ConvertError:
            res = -1
        except Exception as e:
            if crosshair_exc(e):
                raise
            return 13 if isinstance(e, TypeError) else (11 if isinstance(e, KeyError) else (12 if isinstance(e, AttributeError) else 10))
    return res


G.warm_depth3(globals(), GEN)
G.emit_depth3(globals(), "only ConvertError escapes from_data / convert", GEN)
