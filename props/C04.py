"""C04 -- only ConvertError escapes a conversion of interchange data."""
import os

HERE = os.path.dirname(os.path.abspath(__file__))


def harness_files(tier, seed):
    return [os.path.join(HERE, 'hC04.py')]


META = dict(
    bounds="generic depth-1 values and type-directed near-valid values of props/shared.py; adversarial leaf (list, dict, "
           "int, str len<=1, None, tuple, bytes, float, [[]]) at 9 positions (top, element, tag, key, body, field), top mapping "
           "optionally a non-dict Mapping; hooks/predicates raising one of 9 exception classes",
    configs="49 converter instances x entry points from_data/convert; 11 adversarial target types; 5 hook-bearing types; "
            "type building: enumerated lists of documented and unsupported types",
    stubs=["user predicate / __post_init__ raise under a selector (they are inputs of the property)"],
    outside=["from_json/from_yaml entry points (C19's reason)", "MemoryError/KeyboardInterrupt",
             "exceptions from __eq__/__hash__ of hostile objects inside data"],
    assumptions=["oracle: the class of the escaping exception"],
)
