"""C02 -- strictness: no coercion across value kinds."""
import os

HERE = os.path.dirname(os.path.abspath(__file__))


def harness_files(tier, seed):
    return [os.path.join(HERE, 'hC02.py')]


META = dict(
    bounds="value kind: symbolic selector over 14 kinds (None bool int float complex str bytes bytearray list tuple dict "
           "non-dict Mapping, instance of a str subclass, instance of a bytes subclass); content symbolic (int unbounded, float all values incl. nan/inf, str len<=2) or, for containers, "
           "content that is valid for the target so that acceptance depends on the kind alone",
    configs="25 target kinds x 11 embedding contexts (top, list element, tuple slot, struct value, mapping value, mapping value under an Any key, union member, "
            "Optional, dataclass field by name, dataclass field by position, Annotated) = the matrix of the property; quick runs "
            "the cells at top level / as dataclass fields and all scalar targets, thorough all of them",
    stubs=[],
    outside=["Decimal/Fraction targets (accepting numeric text is documented, pinned by tests)", "complex content concretised"],
    assumptions=["oracle: the allowed-relation table ALLOWED in props/hC02.py, written from the property statement"],
)
