"""C20 check (engine E2): field renaming yields canonical, reversible names.

    run_c20.py [--tier quick|thorough] [--lmax N]

Regenerates the encoding from /repo/pane/field.py (or $VERIF_REPO) on every run:
 0. validation (exit 2 on mismatch): models of str.lower/upper/title/islower/isupper/istitle and re.split against CPython
    on all strings of length <= 3 over a boundary alphabet + all 128 single characters; the whole interpreter in concrete
    mode against the real rename_field on the repository's own test vectors and 500 seeded names;
 1. symbolic: for every length L <= Lmax, L symbolic ASCII code points constrained by the snake_case precondition as a
    z3 formula; every feasible path of the real function bodies is explored; per path the NEGATED property is asserted and
    must be unsat:  P1 canonical spelling, P2 idempotent, P3 back to snake + style pairs, P5 refusal of unsplittable names;
    P4 (injectivity) follows from P3 inside the same bound (g(f(n)) = n for all n  =>  f injective) and is also checked
    directly on pairs of short names, together with P6: renaming two names one after the other and back, in one process
    state, still recovers both (no state is carried from one call to the next);
 2. every sat answer is turned into a concrete name and replayed on the real rename_field before it is reported.
"""
import argparse
import hashlib
import json
import multiprocessing as mp
import os
import random
import sys
import time

HERE = os.path.dirname(os.path.abspath(__file__))
sys.path.insert(0, HERE)
REPO = os.environ.get('VERIF_REPO') or '/repo'
sys.path.insert(0, REPO)

import z3
import interp as P

FIELD_PY = os.path.join(REPO, 'pane', 'field.py')
STYLES = ['snake', 'scream', 'kebab', 'camel', 'pascal']
US, HY = 95, 45


class HarnessError(Exception):
    pass


def make_interp():
    src = open(FIELD_PY).read()
    return P.Interp(src), src


def sym_rename(I, name, style):
    return I.call(I.genv['rename_field'], [name, style])


def to_str(model, sstr):
    return ''.join(chr(model.eval(c, model_completion=True).as_long()) for c in sstr.cs)


# ------------------------------------------------------------------ 0. validation of the trusted models

def validate_models():
    alpha = ['@', 'A', 'Z', '[', '`', 'a', 'z', '{', '_', '-', '0']
    strs = ['']
    for n in (1, 2, 3):
        strs += [''.join(t) for t in __import__('itertools').product(alpha, repeat=n)]
    strs += [chr(i) for i in range(128)]
    I, _ = make_interp()
    n = 0
    for s in strs:
        out = list(P.explore(I, [], lambda: (P.m_lower(P.lift(s)), P.m_upper(P.lift(s)), P.m_title(P.lift(s)),
                                             P.truth(P.m_islower(P.lift(s))), P.truth(P.m_isupper(P.lift(s))),
                                             P.truth(P.m_istitle(P.lift(s))))))
        assert len(out) == 1
        (lo, up, ti, il, iu, it) = out[0][1][1]
        conc = lambda x: ''.join(chr(z3.simplify(c).as_long()) for c in x.cs)
        got = (conc(lo), conc(up), conc(ti), il, iu, it)
        want = (s.lower(), s.upper(), s.title(), s.islower(), s.isupper(), s.istitle())
        if got != want:
            raise HarnessError(f"primitive model mismatch on {s!r}: {got} vs {want}")
        n += 1
    for s in strs[:600]:
        out = list(P.explore(I, [], lambda: (P.m_capitalize(P.lift(s)), P.m_replace(P.lift(s), P.lift('A'), P.lift('zz')),
                                             P.m_replace(P.lift(s), P.lift('a_'), P.lift('')))))
        (ca, r1, r2) = out[0][1][1]
        conc = lambda x: ''.join(chr(z3.simplify(c).as_long()) for c in x.cs)
        if (conc(ca), conc(r1), conc(r2)) != (s.capitalize(), s.replace('A', 'zz'), s.replace('a_', '')):
            raise HarnessError(f"primitive model mismatch (capitalize/replace) on {s!r}")
        n += 1
    import re
    import itertools as _it
    for pat in (r'^[_-]|[_-]$|__|--', r'[A-Z]+', r'(ab)+c', r'[^a-z]', r'^a.b$'):
        for L in range(0, 4):
            for tup in _it.product('ab_-AZ', repeat=L):
                txt = ''.join(tup)
                for (kw, ref) in ((dict(), re.search), (dict(anchored=True), re.match), (dict(anchored=True, full=True), re.fullmatch)):
                    out = list(P.explore(I, [], lambda: P.m_re_search(pat, P.lift(txt), **kw)))
                    if len(out) != 1 or bool(out[0][1][1]) != bool(ref(pat, txt)):
                        raise HarnessError(f"regex model mismatch {pat!r} on {txt!r}")
                    n += 1
    for pat in (r'[_-]', r'([A-Z])'):
        for s in strs[:400]:
            out = list(P.explore(I, [], lambda: P.m_re_split(pat, P.lift(s))))
            got = [''.join(chr(z3.simplify(c).as_long()) for c in part.cs) for part in out[0][1][1]]
            if got != re.split(pat, s):
                raise HarnessError(f"re.split model mismatch {pat!r} {s!r}")
            n += 1
    return n


def concrete_rename(I, name, style):
    out = list(P.explore(I, [], lambda: sym_rename(I, P.lift(name), style)))
    if len(out) != 1:
        raise HarnessError(f"concrete run forked: {name!r}")
    s, (kind, val), _ = out[0]
    if kind == 'raise':
        return ('raise', val.__name__ if isinstance(val, type) else type(val).__name__)
    return ('ok', ''.join(chr(z3.simplify(c).as_long()) for c in val.cs))


def real_rename(name, style):
    # the real module is re-executed first: the interpreter models one call in a fresh module state, so the reference must
    # not carry state (e.g. a memo) from the previous test vector either; state carried between calls is P6's subject
    import importlib
    import pane.field                      # (pane.field the attribute is the field() function: go through sys.modules)
    mod = importlib.reload(sys.modules['pane.field'])
    rename_field = mod.rename_field
    try:
        return ('ok', rename_field(name, style))
    except Exception as e:
        return ('raise', type(e).__name__)


def validate_interpreter(seed):
    I, _ = make_interp()
    vectors = ['test', 'test_snake_Case', 'test-KEBAB-Case', 'TestPascalCase', 'testCamelCase', 'TEST_SCREAM_CASE', '__test__',
               'toPascalCase', 'To_CAMEL_case', 'ToScream_Case', 'To_kebab_Case', 'ToSnakeCase', 'a', 'A', 'aB', 'Ab', 'ABc',
               'a1b', 'a_', '_a', 'a__b', 'a-b', 'x9Y', 'HTTPServer', 'fooBAR', 'ab_ab', 'ab_cd_ab', 'ab--cd']
    rnd = random.Random(1000 + seed)
    alpha = 'abAB_-9z'
    vectors += [''.join(rnd.choice(alpha) for _ in range(rnd.randint(1, 8))) for _ in range(500)]
    n = 0
    for v in vectors:
        for st in STYLES:
            a, b = concrete_rename(I, v, st), real_rename(v, st)
            if a != b:
                raise HarnessError(f"interpreter disagrees with the real rename_field on ({v!r}, {st!r}): {a} vs {b}")
            n += 1
    return n


# ------------------------------------------------------------------ 1. symbolic obligations

def snake_pre(cs):
    """lowercase alphabetic words of >= 2 letters joined by single underscores"""
    L = len(cs)
    cons = [z3.Or(P.is_lo(c), c == US) for c in cs] + [cs[0] != US, cs[-1] != US]
    if L > 1:
        cons += [cs[1] != US, cs[-2] != US]
    for i in range(L):
        for j in range(i + 1, min(i + 3, L)):
            cons.append(z3.Not(z3.And(cs[i] == US, cs[j] == US)))
    return cons


def canonical(cs, style):
    """reference spelling (DESIGN.md C20, written from the property statement) as z3 terms over the same vector;
    returns list of (term, keep) where keep is a z3 Bool: whether the position survives (underscores vanish in camel/pascal)"""
    out = []
    for (i, c) in enumerate(cs):
        is_us = c == US
        if style == 'snake':
            out.append((c, z3.BoolVal(True)))
        elif style == 'scream':
            out.append((z3.If(is_us, c, c - 32), z3.BoolVal(True)))
        elif style == 'kebab':
            out.append((z3.If(is_us, z3.IntVal(HY), c), z3.BoolVal(True)))
        else:
            first_of_word = (cs[i - 1] == US) if i > 0 else z3.BoolVal(style == 'pascal')
            out.append((z3.If(first_of_word, c - 32, c), z3.Not(is_us)))
    return out


def check_unsat(s, formula, stats):
    """assert the negation of a property on the current path; returns a model or None"""
    s.push()
    s.add(formula)
    stats['queries'] += 1
    t0 = time.perf_counter()
    r = s.check()
    stats['solver_s'] += time.perf_counter() - t0
    if stats.get('dump') is not None and len(stats['dump']) < 40:
        stats['dump'].append(s.to_smt2())
    m = s.model() if str(r) == 'sat' else None
    if str(r) == 'unknown':
        stats['unknown'] += 1
    s.pop()
    return m


def neq_formula(a, b):
    eq = P.seq_eq(a, b)
    if eq is True:
        return None
    if eq is False:
        return z3.BoolVal(True)
    return z3.Not(eq.e)


def work_length(args):
    (L, tier) = args
    I, _ = make_interp()
    stats = dict(L=L, paths=0, queries=0, solver_s=0.0, unknown=0, viol=[], dump=[] if L == 4 else None, witnesses=[])
    cs = [z3.Int(f"c{i}") for i in range(L)]
    t0 = time.time()
    pairs = [(a, b) for a in STYLES for b in STYLES] if (tier == 'thorough' or L <= 6) else [(a, 'snake') for a in STYLES]
    # P1 + P2 + P3 -------------------------------------------------------------------------------------------
    if L >= 2:
        for st in STYLES:
            def run():
                n = P.SStr(cs)
                mid = sym_rename(I, n, st)
                again = sym_rename(I, mid, st)
                outs = {}
                for (a, b) in pairs:
                    if a == st:
                        outs[b] = (sym_rename(I, mid, b), sym_rename(I, n, b))
                return (mid, again, outs)
            for s, (kind, val), q in P.explore(I, snake_pre(cs), run):
                stats['paths'] += 1
                stats['queries'] += q
                if kind == 'raise':
                    m = s.model() if str(s.check()) == 'sat' else None
                    stats['viol'].append(dict(L=L, style=st, clause='P1 snake name refused', name=to_str(m, P.SStr(cs)) if m else None))
                    continue
                mid, again, outs = val
                # P1: canonical spelling -- compare position-wise through the `keep` mask (decided on this path)
                canon = canonical(cs, st)
                kept = []
                for (term, keep) in canon:
                    if P.CTX is not None:
                        pass
                    s.push(); s.add(z3.Not(keep)); r1 = str(s.check()); s.pop(); stats['queries'] += 1
                    s.push(); s.add(keep); r2 = str(s.check()); s.pop(); stats['queries'] += 1
                    if r1 == 'sat' and r2 == 'sat':
                        raise HarnessError("separator position undecided at the end of a path")
                    if r2 == 'sat':
                        kept.append(term)
                f = neq_formula(mid, P.SStr(kept))
                if f is not None:
                    m = check_unsat(s, f, stats)
                    if m is not None:
                        stats['viol'].append(dict(L=L, style=st, clause='P1 canonical', name=to_str(m, P.SStr(cs))))
                f = neq_formula(again, mid)
                if f is not None:
                    m = check_unsat(s, f, stats)
                    if m is not None:
                        stats['viol'].append(dict(L=L, style=st, clause='P2 idempotent', name=to_str(m, P.SStr(cs))))
                for (b, (via, direct)) in outs.items():
                    f = neq_formula(via, direct)
                    if f is not None:
                        m = check_unsat(s, f, stats)
                        if m is not None:
                            stats['viol'].append(dict(L=L, style=st, clause=f'P3 {st}->{b}', name=to_str(m, P.SStr(cs))))
                if len(stats['witnesses']) < 2 and str(s.check()) == 'sat':
                    stats['witnesses'].append(dict(name=to_str(s.model(), P.SStr(cs)), style=st, out=to_str(s.model(), mid)))
    # P5: unsplittable names are refused ---------------------------------------------------------------------
    letters = lambda c: z3.Or(P.is_lo(c), P.is_up(c), c == US, c == HY)
    sep = lambda c: z3.Or(c == US, c == HY)
    bad = [sep(cs[0]), sep(cs[-1])] + [z3.And(sep(cs[i]), sep(cs[i + 1])) for i in range(L - 1)]
    pre5 = [letters(c) for c in cs] + [z3.Or(*bad)]
    if L <= (9 if tier == 'thorough' else 6):
        for st in (STYLES if tier == 'thorough' else ['snake', 'camel']):
            def twice():
                # the same name twice in one process state: refused both times (a memo filled by the refused call would show)
                out = []
                for _rep in (0, 1):
                    try:
                        sym_rename(I, P.SStr(cs), st)
                        out.append('accepted')
                    except P.PyRaise as pr:
                        out.append(pr.exc)
                return out
            for s, (kind, val), q in P.explore(I, pre5, twice):
                stats['paths'] += 1
                stats['queries'] += q
                refused = lambda x: x is ValueError or isinstance(x, ValueError)
                if kind == 'raise' or not (refused(val[0]) and refused(val[1])):
                    m = s.model() if str(s.check()) == 'sat' else None
                    stats['viol'].append(dict(L=L, style=st, clause='P5 refusal', name=to_str(m, P.SStr(cs)) if m else None))
    stats['wall'] = time.time() - t0
    return stats


def work_pairs(args):
    """P4 directly: two snake names of lengths (L1, L2), n1 != n2, same style => outputs differ"""
    (L1, L2, tier) = args
    I, _ = make_interp()
    stats = dict(L=(L1, L2), paths=0, queries=0, solver_s=0.0, unknown=0, viol=[], dump=None, witnesses=[])
    a = [z3.Int(f"a{i}") for i in range(L1)]
    b = [z3.Int(f"b{i}") for i in range(L2)]
    differ = z3.BoolVal(True) if L1 != L2 else z3.Or(*[x != y for (x, y) in zip(a, b)])
    t0 = time.time()
    for st in ('camel', 'pascal'):
        def run():
            x = sym_rename(I, P.SStr(a), st)
            y = sym_rename(I, P.SStr(b), st)
            # ... and, still in the same process state, both come back to what they were (no state carried between calls)
            return (x, y, sym_rename(I, x, 'snake'), sym_rename(I, y, 'snake'))
        for s, (kind, val), q in P.explore(I, snake_pre(a) + snake_pre(b) + [differ], run):
            stats['paths'] += 1
            stats['queries'] += q
            if kind == 'raise':
                continue
            (x, y, bx, by) = val
            eq = P.seq_eq(x, y)
            if eq is not False:
                m = check_unsat(s, z3.BoolVal(True) if eq is True else eq.e, stats)
                if m is not None:
                    stats['viol'].append(dict(L=(L1, L2), style=st, clause='P4 injective', name=to_str(m, P.SStr(a)),
                                              name2=to_str(m, P.SStr(b))))
            for (back, orig) in ((bx, a), (by, b)):
                f = neq_formula(back, P.SStr(orig))
                if f is not None:
                    m = check_unsat(s, f, stats)
                    if m is not None:
                        stats['viol'].append(dict(L=(L1, L2), style=st, clause='P6 sequence', name=to_str(m, P.SStr(a)),
                                                  name2=to_str(m, P.SStr(b))))
    stats['wall'] = time.time() - t0
    return stats


def replay(v):
    """does the violation reproduce on the real function?"""
    from pane.field import rename_field
    n, st = v['name'], v['style']
    if n is None:
        return False
    c = v['clause']
    try:
        if c.startswith('P1 snake name refused'):
            try:
                rename_field(n, st)
                return False
            except ValueError:
                return True
        if c == 'P1 canonical':
            words = n.split('_')
            want = {'snake': n, 'scream': n.upper(), 'kebab': n.replace('_', '-'),
                    'camel': words[0] + ''.join(w.capitalize() for w in words[1:]),
                    'pascal': ''.join(w.capitalize() for w in words)}[st]
            return rename_field(n, st) != want
        if c == 'P2 idempotent':
            m = rename_field(n, st)
            return rename_field(m, st) != m
        if c.startswith('P3'):
            b = c.split('->')[1]
            return rename_field(rename_field(n, st), b) != rename_field(n, b)
        if c == 'P4 injective':
            return rename_field(n, st) == rename_field(v['name2'], st)
        if c == 'P6 sequence':
            x = rename_field(n, st)
            y = rename_field(v['name2'], st)
            return rename_field(x, 'snake') != n or rename_field(y, 'snake') != v['name2']
        if c == 'P5 refusal':
            for _rep in (0, 1):
                try:
                    rename_field(n, st)
                    return True
                except ValueError:
                    pass
            return False
    except Exception:
        return True      # a different exception than the property allows
    return False


def cvc5_crosscheck(dumps):
    """re-decide dumped final queries with cvc5 (second opinion once per run in the thorough tier)"""
    try:
        import cvc5
        from cvc5 import Kind
    except Exception as e:
        return dict(available=False, reason=repr(e))
    import subprocess, tempfile
    agree = dis = err = 0
    for smt in dumps:
        z = z3.Solver(); z.from_string(smt); rz = str(z.check())
        with tempfile.NamedTemporaryFile('w', suffix='.smt2', delete=False) as f:
            f.write("(set-logic ALL)\n" + smt + "\n")
            path = f.name
        try:
            p = subprocess.run([sys.executable, '-c', 'import cvc5,sys\nfrom cvc5 import Solver\n'
                                's=Solver()\nfrom cvc5 import InputParser, SymbolManager\n'
                                'sm=SymbolManager(s); ip=InputParser(s,sm); ip.setFileInput(cvc5.InputLanguage.SMT_LIB_2_6, sys.argv[1])\n'
                                'res=None\n'
                                'while True:\n'
                                '    c=ip.nextCommand()\n'
                                '    if c.isNull(): break\n'
                                '    o=c.invoke(s,sm)\n'
                                '    if str(o).strip() in ("sat","unsat","unknown"): res=str(o).strip()\n'
                                'print(res)\n', path], capture_output=True, text=True, timeout=60)
            rc = p.stdout.strip().split('\n')[-1] if p.stdout.strip() else 'error'
        except Exception:
            rc = 'error'
        finally:
            os.unlink(path)
        if rc == rz:
            agree += 1
        elif rc in ('sat', 'unsat'):
            dis += 1
        else:
            err += 1
    return dict(available=True, agree=agree, disagree=dis, inconclusive=err)


def main():
    ap = argparse.ArgumentParser()
    ap.add_argument('--tier', default=os.environ.get('VERIF_TIER', 'quick'))
    ap.add_argument('--lmax', type=int, default=0)
    ap.add_argument('--no-evidence', action='store_true')
    ap.add_argument('--no-selftest', action='store_true')
    ap.add_argument('--replay-dir', default=None)
    ap.add_argument('--jobs', type=int, default=int(os.environ.get('VERIF_JOBS', '0')) or (os.cpu_count() or 4))
    a = ap.parse_args()
    tier = a.tier if a.tier in ('quick', 'thorough') else 'quick'
    seed = int(os.environ.get('VERIF_SEED', '0') or 0)
    lmax = a.lmax or (12 if tier == 'thorough' else 9)
    pmax = 7 if tier == 'thorough' else 5
    t0 = time.time()
    jobs = [('len', (L, tier)) for L in range(lmax, 0, -1)]
    jobs += [('pair', (L1, L2, tier)) for L1 in range(2, pmax + 1) for L2 in range(L1, pmax + 1)]
    results = []
    try:
        with mp.Pool(min(a.jobs, len(jobs) + 2)) as pool:
            # validation of the trusted models runs first in the same pool; its failure voids everything else
            v1 = pool.apply_async(validate_models)
            v2 = pool.apply_async(validate_interpreter, (seed,))
            asyncs = [(k, pool.apply_async(work_length if k == 'len' else work_pairs, (args,))) for (k, args) in jobs]
            n_models = v1.get(timeout=3600)
            n_interp = v2.get(timeout=3600)
            for (k, r) in asyncs:
                results.append((k, r.get(timeout=7200)))
    except P.Unsupported as e:
        print(f"HARNESS-ERROR source outside the interpreter's subset: {e}")
        return 2
    except HarnessError as e:
        print(f"HARNESS-ERROR {e}")
        return 2
    viol = []
    spurious = []
    unknown = 0
    for (k, st) in results:
        unknown += st['unknown']
        for v in st['viol']:
            (viol if replay(v) else spurious).append(v)
    paths = sum(st['paths'] for (_, st) in results)
    queries = sum(st['queries'] for (_, st) in results)
    solver_s = sum(st['solver_s'] for (_, st) in results)
    dumps = [d for (_, st) in results for d in (st['dump'] or [])]
    cross = cvc5_crosscheck(dumps[:25]) if tier == 'thorough' else dict(available=False, reason='thorough tier only')
    witnesses = [w for (_, st) in results for w in st['witnesses']]
    from pane.field import rename_field
    validated = sum(1 for w in witnesses if rename_field(w['name'], w['style']) == w['out'])
    rdir = a.replay_dir or '/verif/replays/C20'
    seen = set()
    for v in viol:
        key = (v['clause'].split(' ')[0], v['style'])
        if key in seen:
            continue
        seen.add(key)
        os.makedirs(rdir, exist_ok=True)
        path = os.path.join(rdir, f"{v['clause'].split(' ')[0]}_{v['style']}_{v['name']}.py".replace('/', '_'))
        with open(path, 'w') as f:
            f.write("#!/verif/.venv/bin/python\n# replay of a C20 counterexample on the real rename_field\n"
                    f"import os, sys\nsys.path.insert(0, os.environ.get('VERIF_REPO') or '/repo')\n"
                    f"sys.path.insert(0, '/verif/engine/pysym')\nimport run_c20\nv = {v!r}\n"
                    "ok = run_c20.replay(v)\nprint('REPLAY reproduces' if ok else 'REPLAY does not reproduce', v)\nsys.exit(1 if ok else 0)\n")
        os.chmod(path, 0o755)
        print(f"counterexample: {v}")
        print(f"VIOLATION property=C20 replay={path}")
    for v in spurious[:5]:
        print(f"SPURIOUS (engine) counterexample does not reproduce on the real function: {v}")
    if unknown:
        print(f"INCONCLUSIVE {unknown} solver queries answered unknown")
    if cross.get('disagree'):
        print(f"INCONCLUSIVE cvc5 disagrees with z3 on {cross['disagree']} queries")
    wall = time.time() - t0
    ev = dict(property_id='C20', tier=tier, seed=seed, level='model_checking', wall_s=round(wall, 2), violations=len(viol),
              coverage=dict(
                  states=paths, transitions=queries, traces_validated_against_impl=validated + n_interp,
                  samples=witnesses[:10] or [dict(note='none')],
                  obligations=len(jobs), discharged=sum(1 for (_, st) in results if not st['viol'] and not st['unknown']),
                  solver_s=round(solver_s, 2), solver='z3 ' + z3.get_version_string(), cvc5_crosscheck=cross,
                  functions_encoded=['pane.field:rename_field', 'pane.field:_split_field_name', 'pane.field:_split_field_name.<locals>.split_case',
                                     'pane.field:_pairwise', 'pane.field:_CONVERT_FNS (5 lambdas)'],
                  source_sha256=hashlib.sha256(open(FIELD_PY, 'rb').read()).hexdigest(),
                  bounds=f"names of length 1..{lmax} (P1-P3), 1..{9 if tier == 'thorough' else 6} (P5), pairs of lengths 2..{pmax} (P4 directly; for longer "
                         f"names injectivity follows from P3); ASCII code points; precondition snake(n): chars in [a-z_], no separator at "
                         f"either end, words >= 2 letters",
                  explanation="states = feasible paths of the real rename_field/_split_field_name/split_case bodies (interpreted from the AST of "
                              "/repo/pane/field.py) over symbolic character vectors; transitions = z3 queries (branch decisions + one "
                              "negated-property query per path and clause, all unsat on the unchanged tree)",
                  validation=dict(primitive_model_cases=n_models, interpreter_vs_real_cases=n_interp),
                  outside_claim=["non-ASCII letters (e.g. 'ß'.upper() == 'SS')", f"names longer than {lmax}",
                                 "uses of rename_field for input/output names are exercised with concrete names by C05/C15"]),
              assumptions=["models of str.lower/upper/title/islower/isupper/istitle and re.split (validated against CPython at every run)",
                           "z3 (QF_LIA); cvc5 second opinion in the thorough tier"])
    if not a.no_evidence:
        os.makedirs('/verif/evidence', exist_ok=True)
        with open('/verif/evidence/C20.json', 'w') as f:
            json.dump(ev, f, indent=1)
    print(f"SUMMARY property=C20 tier={tier} lmax={lmax} obligations={len(jobs)} paths={paths} queries={queries} solver_s={solver_s:.1f} "
          f"violations={len(viol)} spurious={len(spurious)} unknown={unknown} cvc5={cross} wall_s={wall:.1f}")
    return 1 if viol else 0


if __name__ == '__main__':
    sys.exit(main())
