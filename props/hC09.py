"""C09 harness: conversion never mutates its input (both verdicts, every entry point, at any depth).

Verdict codes: 1 input changed by the fast pass; 2 by the diagnostic pass; 4 by from_data; 5 by convert;
6 the converted value changed by into_data; 7 keyword/positional arguments changed by dataclass construction.
Witness classes: 0 accepted, -1 rejected.
"""
import collections
import collections.abc
import sys
import typing as t

import pane
from pane.errors import ParseInterrupt, ConvertError

import hlib
from hlib import obligation, crosshair_exc, snapshot, eqv, lf, lf3
from props import shared
from props.shared import CONVS, TYPES, P1, P2, PN, PAl

shared.export(globals())


def _quiet(f, *a):
    """run f; returns (ok, result); every pane-side exception is a legal outcome here (C03/C04 judge them)"""
    try:
        return True, f(*a)
    except Exception as e:
        if crosshair_exc(e):
            raise
        return False, None


def mutation(name, v, do_convert):
    conv = CONVS[name]
    s0 = snapshot(v)
    ok, x = _quiet(conv.try_convert, v)
    if not eqv(snapshot(v), s0):
        return 1
    _quiet(conv.collect_errors, v)
    if not eqv(snapshot(v), s0):
        return 2
    if name in TYPES and do_convert:
        _quiet(pane.convert, v, TYPES[name])     # = into_data(v) then from_data(..)
        if not eqv(snapshot(v), s0):
            return 5
    if ok:
        sx = snapshot(x)
        _quiet(conv.into_data, x)
        if not eqv(snapshot(x), sx):
            return 6
        return 0
    return -1


def ORACLE(name, v, grp):
    return mutation(name, v, grp in ('A', 'T'))


shared.warm(lambda name, s: ORACLE(name, s, 'A'))
shared.emit(globals(), "input not mutated", names=[n for n in CONVS if n in shared.MAPPISH], groups='AC', quick_groups='C', timeout=180)
shared.emit(globals(), "input not mutated", names=[n for n in CONVS if n in shared.SEQISH and n not in shared.MAPPISH], groups='B', quick_groups='')
shared.emit_td(globals(), "input not mutated", timeout=240)


# ------------------------------------------------------------------ mutable-mapping inputs that grow on read / nested tagged unions

class VA(pane.PaneBase):
    kind: t.Literal['a'] = 'a'
    inner: t.Optional[shared.TYPES['tag_int']] = None     # nested internally tagged union
    xs: t.List[int] = pane.field(default_factory=list)


class VB(pane.PaneBase):
    kind: t.Literal['b'] = 'b'
    n: int = 0


T_NEST = t.Annotated[t.Union[VA, VB], pane.annotations.Tagged('kind')]
T_NEST_LIST = t.List[T_NEST]
C_NEST = pane.convert.make_converter(T_NEST) if hasattr(pane.convert, 'make_converter') else None
from pane.convert import make_converter
C_NEST = make_converter(T_NEST)
C_NEST_LIST = make_converter(T_NEST_LIST)
C_STRUCT = make_converter({'a': int, 'b': t.Optional[str]})
C_TAGS = {0: CONVS['tag_int'], 1: CONVS['tag_ext'], 2: CONVS['tag_adj']}


def nest_value(ok, ik, tk, ka, ia, sa, extra, wrap):
    """outer tagged mapping {'kind': ..., 'inner': {'t': ..., 'a': A}, 'xs': [...]} with faults by selector"""
    inner = {'a': lf(ka, ia, sa)}
    if tk == 1:
        inner['t'] = 'x'
    elif tk == 2:
        inner['t'] = 'y'
    elif tk == 3:
        inner['t'] = 'q'
    d = {}
    if ok == 1:
        d['kind'] = 'a'
    elif ok == 2:
        d['kind'] = 'b'
    elif ok == 3:
        d['kind'] = 'zz'
    if ik == 1:
        d['inner'] = inner
    elif ik == 2:
        d['inner'] = None
    elif ik == 3:
        d['inner'] = [inner]
    if extra:
        d['zz'] = [1]
        d['xs'] = [1, 2]
    return [d, {'kind': 'b', 'n': 1}] if wrap else d


def _mut2(conv, ty, v):
    s0 = snapshot(v)
    ok, x = _quiet(conv.try_convert, v)
    if not eqv(snapshot(v), s0):
        return 1
    _quiet(conv.collect_errors, v)
    if not eqv(snapshot(v), s0):
        return 2
    _quiet(pane.convert, v, ty)
    if not eqv(snapshot(v), s0):
        return 5
    return 0 if ok else -1


for _s in ({'kind': 'a', 'inner': {'t': 'x', 'a': 1}}, {'kind': 'a', 'inner': {'t': 'x', 'a': 'q'}}, [{'kind': 'b', 'n': 1}], {}):
    try:
        _mut2(C_NEST, T_NEST, _s)
        _mut2(C_NEST_LIST, T_NEST_LIST, _s)
    except Exception:
        pass


@obligation(pre="0 <= ok <= 3 and 1 <= ik <= 3 and 0 <= tk <= 3 and 0 <= ka <= 2 and (ik != 2 or (tk == 0 and ka == 0)) and not wrap",
            witnesses=(0, -1), timeout=480)
def body_nested_tagged(ok: int, ik: int, tk: int, ka: int, ia: int, sa: str, extra: bool, wrap: bool) -> int:
    """nested internally tagged unions (tag stripped at two levels): input never modified"""
    v = nest_value(ok, ik, tk, ka, ia, sa, extra, wrap)
    return _mut2(C_NEST, T_NEST, v)


@obligation(pre="ok == 1 and ik == 1 and 0 <= tk <= 3 and 0 <= ka <= 2 and wrap", witnesses=(0, -1), timeout=120)
def body_nested_tagged_list(ok: int, ik: int, tk: int, ka: int, ia: int, sa: str, extra: bool, wrap: bool) -> int:
    """nested internally tagged unions inside a list: input never modified"""
    v = nest_value(ok, ik, tk, ka, ia, sa, extra, wrap)
    return _mut2(C_NEST_LIST, T_NEST_LIST, v)


def growing(kind, d):
    """mapping kinds whose *reads* can write: 0 plain dict, 1 defaultdict(int), 2 defaultdict(list), 3 OrderedDict"""
    if kind == 0:
        return d
    elif kind == 1:
        return collections.defaultdict(int, d)
    elif kind == 2:
        return collections.defaultdict(list, d)
    else:
        return collections.OrderedDict(d)


for _k in (1, 2):
    for _c in (C_STRUCT, CONVS['p1'], CONVS['tag_int'], CONVS['tag_ext'], CONVS['tag_adj'], CONVS['pal'], CONVS['dict_si']):
        for _d in ({'a': 1}, {'t': 'x'}, {}, {'t': 'x', 'zz': 1}, {'x': {}}, {'b': 1}):
            try:
                _quiet(_c.try_convert, growing(_k, _d))
                _quiet(_c.collect_errors, growing(_k, _d))
            except Exception:
                pass


def _mut3(conv, v):
    s0 = snapshot(v)
    n0 = len(v)
    ok, x = _quiet(conv.try_convert, v)
    if len(v) != n0 or not eqv(snapshot(v), s0):
        return 1
    _quiet(conv.collect_errors, v)
    if len(v) != n0 or not eqv(snapshot(v), s0):
        return 2
    _quiet(conv.convert, v)
    if len(v) != n0 or not eqv(snapshot(v), s0):
        return 4
    return 0 if ok else -1


_GROW = '''
@obligation(pre="0 <= kind <= 3 and 0 <= ka <= 5 and 0 <= kb <= 2", witnesses={wit}, timeout=120)
def body_grow_{name}(kind: int, pa: bool, ka: int, ia: int, sa: str, pb: bool, kb: int, ib: int, sb: str, pe: bool) -> int:
    """mappings whose reads can insert (defaultdict) and ordered mappings, missing/extra keys: {name} leaves them untouched"""
    d = shared.b_struct2(pa, ka, ia, sa, pb, kb, ib, sb, pe, {names!r})
    return _mut3({conv}, growing(kind, d))
'''
exec(_GROW.format(wit=(0, -1), name='struct', names=('a', 'b', 'zz'), conv='C_STRUCT'))
exec(_GROW.format(wit=(0, -1), name='p1', names=('a', 'b', 'zz'), conv="CONVS['p1']"))
exec(_GROW.format(wit=(0, -1), name='pal', names=('a_b', 'ab', 'b'), conv="CONVS['pal']"))
exec(_GROW.format(wit=(0, -1), name='tag_int', names=('t', 'a', 'zz'), conv="CONVS['tag_int']"))
exec(_GROW.format(wit=(-1,), name='tag_ext', names=('x', 'y', 'zz'), conv="CONVS['tag_ext']"))
exec(_GROW.format(wit=(-1,), name='tag_adj', names=('t', 'c', 'zz'), conv="CONVS['tag_adj']"))
exec(_GROW.format(wit=(0, -1), name='dict_si', names=('a', 'b', ''), conv="CONVS['dict_si']"))


# ------------------------------------------------------------------ dataclass construction / into_data of instances

for _a in ([1], []):
    try:
        PN(p={'a': 1}, q=[{'a': 1}])
        PAl(a_b=1, b=[1])
    except Exception:
        pass


@obligation(pre="0 <= ka <= 5 and 0 <= kb <= 2 and 0 <= qk <= 2", witnesses=(0, -1), timeout=120)
def body_construct(ka: int, ia: int, sa: str, kb: int, ib: int, sb: str, qk: int, pos: bool) -> int:
    """Cls(*args, **kw) leaves its (container) arguments untouched, and into_data leaves the instance untouched"""
    p = {'a': lf(ka, ia, sa)}
    if qk == 0:
        q = []
    elif qk == 1:
        q = [{'a': lf3(kb, ib, sb)}]
    else:
        q = [[1, lf3(kb, ib, sb)], {'a': 2, 'zz': 0}]
    sp, sq = snapshot(p), snapshot(q)
    if pos:
        ok, x = _quiet(PN, p, q)
    else:
        ok, x = _quiet(lambda: PN(p=p, q=q))
    if not (eqv(snapshot(p), sp) and eqv(snapshot(q), sq)):
        return 7
    if not ok:
        return -1
    sx = snapshot(x)
    _quiet(x.into_data)
    _quiet(pane.into_data, x)
    _quiet(x.dict)
    if not eqv(snapshot(x), sx):
        return 6
    if not (eqv(snapshot(p), sp) and eqv(snapshot(q), sq)):
        return 7
    return 0


# ------------------------------------------------------------------ after a FAILED convert() / constructor call

def after_failed_call(first, tk, ka, ia, sa, he, entry):
    if first == 0:
        _quiet(pane.convert, [1, 'x'], t.List[int])                 # fails on a non-scalar argument
    elif first == 1:
        _quiet(lambda: P1(a=['x']))                                        # a checked constructor that fails
    elif first == 2:
        _quiet(pane.convert, {'a': 1}, P1)                            # succeeds
    else:
        _quiet(pane.convert, {'t': 'x', 'a': 'bad'}, TYPES['tag_int'])   # fails inside a tagged union
    v = shared.b_tag_int(tk, True, ka, ia, sa, he)
    if entry == 1:
        v = {'kind': 'a', 'inner': v}
    elif entry == 2:
        v = [v, {'t': 'x', 'a': 'bad'}]
    s0 = snapshot(v)
    T = TYPES['tag_int'] if entry == 0 else (T_NEST if entry == 1 else t.List[TYPES['tag_int']])
    ok, x = _quiet(pane.from_data, v, T)
    if not eqv(snapshot(v), s0):
        return 4
    ok2, y = _quiet(pane.convert, v, T)
    if not eqv(snapshot(v), s0):
        return 5
    return 0 if ok else -1


_AF = '''
@obligation(pre="0 <= tk <= 3 and (ka == 2 or ka == 4) and 0 <= entry <= 2", witnesses=(0, -1), timeout=200)
def body_after_failed_call_{first}(tk: int, ka: int, ia: int, sa: str, he: bool, entry: int) -> int:
    """{doc}"""
    if len(sa) > 1:
        return -99
    return after_failed_call({first}, tk, ka, ia, sa, he, entry)
'''
for (_f, _what) in ((0, 'a convert() that failed on a non-scalar argument'), (1, 'a checked constructor call that failed'),
                    (2, 'a convert() that succeeded'), (3, 'a convert() that failed inside a tagged union')):
    exec(_AF.format(first=_f, doc=_what + " just before does not make the next conversion touch its input (plain dict into tagged unions, nested, in a list)"))
body_after_failed_call = after_failed_call

for _f in range(4):
    for _e in range(3):
        for _tk in range(4):
            try:
                body_after_failed_call(_f, _tk, 2, 1, '', False, _e)
                body_after_failed_call(_f, _tk, 4, 1, 'q', True, _e)
            except Exception:
                pass


# ------------------------------------------------------------------ the unchecked constructors

class UC(pane.PaneBase, frozen=False):
    """fields that are filled in by the class when absent: a plain default, a factory, an init=False field with a factory"""
    name: str = 'n'
    xs: t.List[int] = pane.field(default_factory=list)
    log: t.List[str] = pane.field(init=False, default_factory=list)
    tag: str = pane.field(init=False, default='t')


@obligation(pre="0 <= which <= 2", witnesses=(0,), timeout=120)
def body_unchecked_construct(which: int, hn: bool, hx: bool, hl: bool, i: int) -> int:
    """from_dict_unchecked(d) / make_unchecked(**kw) / copy leave the mapping and the containers passed in untouched (whichever fields are absent and filled in by the class)"""
    xs = [i]
    d = {}
    if hn or which <= 1:
        d['name'] = 'q'          # (from_dict_unchecked stores the mapping verbatim: the caller supplies every init field)
    if hx or which <= 1:
        d['xs'] = xs
    if hl:
        d['log'] = ['l']
    s0, sx = snapshot(d), snapshot(xs)
    import copy as _copy
    try:
        if which == 0:
            x = UC.from_dict_unchecked(d)
        elif which == 1:
            x = UC.from_dict_unchecked(d, set_fields=set(d.keys()))
        else:
            x = UC.make_unchecked(**{k: v for (k, v) in d.items() if k != 'log'})
        _copy.copy(x)
        _copy.deepcopy(x)
        x.dict()
        x.into_data()
    except Exception as e:
        if crosshair_exc(e):
            raise
        return 10
    if not eqv(snapshot(d), s0) or not eqv(snapshot(xs), sx):
        return 7
    if not hl and not eqv(x.log, []):
        return 10
    return 0


for _w in range(3):
    try:
        body_unchecked_construct(_w, True, False, False, 1)
        body_unchecked_construct(_w, False, True, True, 1)
    except Exception:
        pass
