"""C09 -- conversion never mutates its input."""
import os

HERE = os.path.dirname(os.path.abspath(__file__))


def harness_files(tier, seed):
    return [os.path.join(HERE, 'hC09.py')]


META = dict(
    bounds="generic depth-1 values and type-directed near-valid values of props/shared.py (containers are CrossHair's symbolic "
           "list/dict proxies or real containers of symbolic leaves); nested internally tagged unions (2 levels, optionally in a "
           "list); mappings of kind dict/defaultdict(int)/defaultdict(list)/OrderedDict with missing and extra keys",
    configs="all mapping- and sequence-consuming converter instances; entry points try_convert, collect_errors, from_data, "
            "convert, into_data, Cls(...)",
    stubs=[],
    outside=["mutation through user-supplied hooks/constructors (they are the user's code)"],
    assumptions=["oracle: deep type-tagged snapshot of the argument before vs after (NaN-aware)"],
)
