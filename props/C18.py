"""C18 -- custom converter precedence and reach."""
import os

HERE = os.path.dirname(os.path.abspath(__file__))


def harness_files(tier, seed):
    files = [os.path.join(HERE, 'hC18.py')]
    if tier == 'thorough':
        # 96 nested handler structures drawn from a grammar with VERIF_SEED (regenerated at import from the seed)
        os.environ['VERIF_SEED'] = str(seed)
        files.append(os.path.join(HERE, 'hC18g.py'))
    return files


META = dict(
    bounds="symbolic int values at 7 positions (bare field, List, Dict value, Optional, Union member, inherited field, outer field); "
           "presence of the sources and the call-level form chosen by symbolic selectors",
    configs="16 class families = presence bits of (field converter, own-class custom, inherited custom, enclosing-class custom), created "
            "by class statements; 7 call-level forms (none, callable, sequence, mapping, deferring+raising-NotImplementedError then "
            "callable, mapping keyed on list/subclass, deferring only); direct and nested (also inside List[Inner]); both directions; "
            "HasConverter type, int subclass, list subclass with a registered global handler",
    stubs=["marking converters installed by each source (they are inputs of the property)"],
    outside=["handlers for types other than int/list/subclass/protocol types",
             "quick tier: class families are enumerated; thorough tier adds 96 nested handler structures drawn from a grammar with VERIF_SEED"],
    assumptions=["oracle: the total order written in props/hC18.py winner()"],
)
